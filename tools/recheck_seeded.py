#!/usr/bin/env python3
"""Re-run the stored seeded changes (/verif/seeded/<id>/) against the current checks.
For each: a scratch worktree of /repo is created under a mktemp directory, the patch applied,
the repository tests and the demonstration run, the property's quick check run through
VERIF_REPO, and the worktree removed.  /repo itself is never modified.
usage: recheck_seeded.py [<id> ...] [--all-props]   (default: every stored change)"""
import json
import os
import shutil
import subprocess
import sys
import tempfile

ROOT = os.path.dirname(os.path.dirname(os.path.abspath(__file__)))


def sh(cmd, cwd=None, env=None):
    p = subprocess.run(cmd, shell=True, cwd=cwd, env=env, capture_output=True, text=True)
    return p.returncode, p.stdout + p.stderr


def main():
    ids = [a for a in sys.argv[1:] if not a.startswith('--')] or sorted(d_ for d_ in os.listdir(os.path.join(ROOT, 'seeded')) if os.path.isdir(os.path.join(ROOT, 'seeded', d_)))
    tmp = tempfile.mkdtemp(prefix='seedwt_')
    wt = os.path.join(tmp, 'wt')
    rc, o = sh('git -C /repo worktree add -q --detach %s HEAD' % wt)
    if rc:
        print(o)
        return 3
    summary = {}
    try:
        for sid in ids:
            d = os.path.join(ROOT, 'seeded', sid)
            if not os.path.isdir(d):
                continue
            meta = json.load(open(d + '/meta.json'))
            prop = meta['property']
            sh('git checkout -q -- . && git clean -fdq', cwd=wt)
            env = dict(os.environ, PYTHONPATH=wt)
            r0, _ = sh('/venv/bin/python %s/demo.py' % d, cwd=wt, env=env)
            rc, o = sh('git apply %s/patch.diff' % d, cwd=wt)
            if rc:
                summary[sid] = 'patch no longer applies'
                print(sid, summary[sid])
                continue
            _, t = sh('/venv/bin/python -m pytest -q -p no:cacheprovider pyModelChecking/tests 2>&1 | tail -1', cwd=wt)
            r1, _ = sh('/venv/bin/python %s/demo.py' % d, cwd=wt, env=env)
            evd = os.path.join(tmp, 'ev')
            os.makedirs(evd, exist_ok=True)
            env2 = dict(os.environ, VERIF_REPO=wt, VERIF_EVIDENCE_DIR=evd, VERIF_REPLAY_DIR=evd)
            rcc, out = sh('./check %s --tier quick' % prop, cwd=ROOT, env=env2)
            viol = [l for l in out.splitlines() if l.startswith('VIOLATION')]
            ok = r0 == 0 and r1 == 1 and '65 passed' in t
            summary[sid] = {'still_valid_mutant': ok, 'check_exit': rcc, 'detected': rcc == 1 and bool(viol),
                            'first_violation': viol[0][:260] if viol else None}
            print(sid, json.dumps(summary[sid]))
            meta['detected_by'] = {prop: summary[sid]['detected']}
            meta['violation_lines'] = {prop: [v[:300] for v in viol[:3]]}
            json.dump(meta, open(d + '/meta.json', 'w'), indent=1)
    finally:
        sh('git -C /repo worktree remove --force %s' % wt)
        shutil.rmtree(tmp, ignore_errors=True)
    sp = os.path.join(ROOT, 'seeded', 'SUMMARY.json')
    if len(ids) < len([d_ for d_ in os.listdir(os.path.join(ROOT, 'seeded')) if os.path.isdir(os.path.join(ROOT, 'seeded', d_))]):
        # a partial run: keep the entries of the changes that were not re-run
        try:
            old = json.load(open(sp))
        except Exception:
            old = {}
        old.update(summary)
        summary = old
    json.dump(summary, open(sp, 'w'), indent=1, sort_keys=True)
    missed = [k for k, v in summary.items() if isinstance(v, dict) and not v['detected']]
    print('missed:', missed)
    return 0


if __name__ == '__main__':
    sys.exit(main())
