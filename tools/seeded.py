#!/usr/bin/env python3
"""Confirm a candidate seeded change (patch + demo) in its scratch worktree and
run the /verif checks against it (through VERIF_REPO, /repo itself is never
touched).  usage: seeded.py <Cxx> <A|B> [--props C01,C19] [--keep]
Reads /tmp/mut/<Cxx>/out/{patch_X.diff,demo_X.py,meta_X.json}; on success writes
/verif/seeded/<Cxx>_<X>/{patch.diff,demo.py,meta.json}."""
import json
import os
import shutil
import subprocess
import sys

ROOT = os.path.dirname(os.path.dirname(os.path.abspath(__file__)))


def sh(cmd, cwd=None, env=None, timeout=3600):
    p = subprocess.run(cmd, shell=True, cwd=cwd, env=env, capture_output=True, text=True, timeout=timeout)
    return p.returncode, p.stdout + p.stderr


def main():
    pid, x = sys.argv[1], sys.argv[2]
    props = [pid]
    for i, a in enumerate(sys.argv):
        if a == '--props':
            props = sys.argv[i + 1].split(',')
    base = '/tmp/mut/%s' % pid
    wt = base + '/wt'
    out = base + '/out'
    patch = '%s/patch_%s.diff' % (out, x)
    demo = '%s/demo_%s.py' % (out, x)
    meta = json.load(open('%s/meta_%s.json' % (out, x)))
    res = {'ran': []}
    sh('git checkout -- . && git clean -fdq', cwd=wt)
    env = dict(os.environ, PYTHONPATH=wt)
    rc, o = sh('/venv/bin/python %s' % demo, cwd=wt, env=env)
    res['demo_unchanged_rc'] = rc
    rc, o = sh('git apply %s' % patch, cwd=wt)
    if rc != 0:
        print('PATCH DOES NOT APPLY', o)
        return 2
    rc, o = sh('/venv/bin/python -m pytest -q -p no:cacheprovider pyModelChecking/tests 2>&1 | tail -1', cwd=wt)
    res['tests'] = o.strip()
    rc, o = sh('/venv/bin/python %s' % demo, cwd=wt, env=env)
    res['demo_changed_rc'] = rc
    res['demo_changed_out'] = o.strip()[-300:]
    ok = res['demo_unchanged_rc'] == 0 and res['demo_changed_rc'] == 1 and '65 passed' in res['tests']
    res['confirmed'] = ok
    detected = {}
    if ok:
        for p in props:
            evd = '/tmp/mut/ev_%s_%s' % (pid, x)
            os.makedirs(evd, exist_ok=True)
            env2 = dict(os.environ, VERIF_REPO=wt, VERIF_EVIDENCE_DIR=evd, VERIF_REPLAY_DIR=evd)
            rc, o = sh('./check %s --tier quick' % p, cwd=ROOT, env=env2)
            viol = [l for l in o.splitlines() if l.startswith('VIOLATION')]
            detected[p] = {'rc': rc, 'violations': [v[:300] for v in viol[:4]],
                           'crash': [l for l in o.splitlines() if 'CHECKER-CRASH' in l or 'Traceback' in l][:2]}
            res['ran'].append('VERIF_REPO=<scratch worktree with the patch> ./check %s --tier quick -> exit %d' % (p, rc))
            shutil.rmtree(evd, ignore_errors=True)
    res['detected'] = detected
    sh('git checkout -- . && git clean -fdq', cwd=wt)
    print(json.dumps(res, indent=1))
    if ok:
        d = os.path.join(ROOT, 'seeded', '%s_%s' % (pid, x))
        os.makedirs(d, exist_ok=True)
        shutil.copy(patch, d + '/patch.diff')
        shutil.copy(demo, d + '/demo.py')
        meta2 = {'property': pid, 'summary': meta.get('summary'), 'needs': meta.get('needs'), 'files': meta.get('files'),
                 'confirmed': {'existing_tests': res['tests'], 'demo_exit_with_change': res['demo_changed_rc'],
                               'demo_exit_without_change': res['demo_unchanged_rc']},
                 'what_i_ran': ['git apply patch.diff in a scratch worktree of /repo',
                                '/venv/bin/python -m pytest -q -p no:cacheprovider pyModelChecking/tests',
                                'PYTHONPATH=<worktree> /venv/bin/python demo.py (with and without the change)'] + res['ran'],
                 'detected_by': {p: (v['rc'] == 1 and bool(v['violations'])) for p, v in detected.items()},
                 'violation_lines': {p: v['violations'] for p, v in detected.items()}}
        json.dump(meta2, open(d + '/meta.json', 'w'), indent=1)
    return 0


if __name__ == '__main__':
    sys.exit(main())
