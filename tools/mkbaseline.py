#!/usr/bin/env python3
"""Regenerate baseline_obligations.json: every obligation discharged on the
current (unchanged or fix:-repaired) tree.  Run deliberately, never by a check."""
import json
import os
import sys
ROOT = os.path.dirname(os.path.dirname(os.path.abspath(__file__)))
sys.path.insert(0, ROOT)
from vf import core          # noqa
from vf.pyvc import run      # noqa


def main():
    ctx = core.Ctx('baseline', 'quick', 0)
    seen = {}
    fns = sorted(set(f for fs in run.PROPERTY_FUNCTIONS.values() for f in fs))
    for r in run.run_functions(ctx, fns, timeout_ms=90000):
        if 'obligations' not in r or 'extraction_failure' in r or 'crash' in r:
            print('SKIP', r['function'], r.get('extraction_failure') or r.get('crash'))
            continue
        for o in r['obligations']:
            if o['status'] == 'discharged':
                seen[o['name']] = {'owner': r.get('owner'), 'backend': o['backend'], 'tags': o['tags']}
            else:
                print('NOT DISCHARGED', o['name'], o['detail'])
    ctx.close()
    json.dump({'discharged': seen}, open(os.path.join(ROOT, 'baseline_obligations.json'), 'w'), indent=0, sort_keys=True)
    print(len(seen), 'obligations in the baseline')


if __name__ == '__main__':
    main()
