#!/usr/bin/env python3
"""Regenerate MANIFEST.json from the table below (only properties that have a
vf/props/<id>.py module are claimed; the rest go to not_applicable with the
reason given here)."""
import json
import os

ROOT = os.path.dirname(os.path.dirname(os.path.abspath(__file__)))

PYSEM = ('Python semantics assumed by the VC encoding (E1-E6 in DESIGN.md 2.2): mathematical hashable values, '
         'arbitrary-order set/dict iteration, mathematical ints, no monkey-patching, partial correctness only; '
         'z3/cvc5 and the pyvc generator itself are trusted (mitigated by front-end validation and planted defects).')

B = 'bounded stand-in: the contracts of the functions the property depends on, evaluated at run time on the real code over the scope stated in coverage.rule; labelled bounded, never counted as proved. '
P = {
 'C01': dict(level='exploration', ref='3/C01', tech='contract-based deductive verification (pyvc: AST->VC generator over the real source + z3) of CTL.modelcheck (object formula, F=None), _checkStateFormula, _checkAtomicProposition, _checkNot, _checkOr, _checkEX, _checkEU, _checkEG against result == sat(K,f) (documented semantics in fixpoint form as axioms); compute_SCCs under an ASSUMED contract (= the statement of C12); decisive end-to-end part: run-time contract against an independent reference semantics (bounded)',
   text='Deductive part: ~740 obligations (functional, memo-table invariant, raises) of the 8 functions of CTL/model_checking.py discharged for all structures and formulas: E(f U g) as least fixpoint via the contracts of get_subgraph/get_reversed_graph/add_edge/add_node/get_reachable_set_from; E G f via the components of the reversed f-subgraph (greatest-fixpoint principle for soundness; finite-structure cycle lemma, closure axioms and induction for completeness). Not a proof of the property: compute_SCCs is assumed (C12 bounded), the semantics axioms, the two extremality schemas and the cycle lemma are trusted, the rewriting contract is proved separately in the path semantics (C05), the text/parser and fairness legs are outside. The bounded stand-in (every structure <=2 states x formulas to depth 2, sampled/all 3-state, random <=6 states; vs vf/spec/sem.py) decides.', note='reference semantics vf/spec/sem.py trusted (audited against lasso enumeration); see evidence trusted_base for the assumed lemmas; Python semantics E1-E6 (DESIGN.md 2.2)'),
 'C02': dict(level='exploration', ref='3/C02', tech='contract-based deductive verification (pyvc + z3) of the wrapper LTL.modelcheck against an ASSUMED contract of _checkE_path_formula; run-time contract of LTL.modelcheck against the reference semantics with lasso certification decides (bounded); tableau internals not within deductive reach',
   text='Deductive part: the wrapper returns the states all of whose paths satisfy g, given the assumed contract of the tableau search and the proved contracts of LNot and of the rewriting (its frame/safety obligations are counted under C07/C19). Bounded stand-in (decides): LTL.modelcheck on small structures x path formulas with <=3 temporal operators; every excluded verdict certified by a concrete lasso.', note='_build_atoms/_Tableu and the tableau theorem are not proved; reference semantics trusted'),
 'C03': dict(level='exploration', ref='3/C03', tech='contract-based deductive verification (pyvc + z3) of the fresh-label helper and - for frame/safety only - of the three functions of the reduction; what the reduction computes: run-time contract of CTLS.modelcheck against the reference semantics (bounded)',
   text='Deductive part: the label returned by _get_a_new_atomic_proposition_for is not a label of the structure; _remove_state_subformulas/_checkQuantifiedFormula keep the states, transitions and label-set objects of the structure passed in and rebuild formulas that keep the arity invariant (their frame and safety obligations are counted under C07/C19). Bounded stand-in (decides): CTLS.modelcheck on small structures x CTL* state formulas (arbitrary path formulas under A/E, quantifier nesting <=2).', note='LTL leg bounded only (C02); reference semantics trusted'),
 'C04': dict(level='exploration', ref='3/C04', tech='relational run-time contracts over pairs of calls (agreement of entry points, Boolean/duality/expansion laws); no oracle; the clause "text or object gives the same set" also as a corollary of the text-leg contracts proved by pyvc + z3 (obligations owned by C01/C02/C03/C07/C19)',
   text=B + 'agreement of CTL/LTL/CTL* entry points and text/object, and 16 semantic laws, on small and random structures. Deductive counterpart only for text-vs-object: each modelcheck on a string satisfies the object-leg statement at the formula object the default parser returns.', note='needs no reference implementation; bounded scope'),
 'C05': dict(level='exploration', ref='3/C05', tech='contract-based deductive verification (pyvc + z3) of LNot, the 12 CTL* get_equivalent_restricted_formula bodies, the CTL-specific bodies CTL.A / CTL.E and the shortcuts EX/EG/EU against the documented path semantics (axioms over abstract evaluation points) and the documented restricted syntaxes of CTL*/LTL and CTL; end-to-end claim: run-time contract with equivalence decided by the reference semantics (bounded)',
   text='Deductive part: ~150 obligations (equivalence at every evaluation point, restricted alphabet, no double negation, loop invariants of the list-building loops) discharged for all formulas; A(f U g) and E(f R g) use the least-position principle (well-ordering, trusted) through one cut lemma each; CTL receivers are assumed to satisfy the documented CTL grammar. LTL receivers (module lookup Lang.E, KF-C05-1) are not under proof. Bounded stand-in: formulas to depth 2-3; LTL equivalence over 2 atoms decided exactly on the universal 4-state structure; quantified formulas on all <=2-state structures + samples.', note='reference semantics trusted; formulas to depth 2-3'),
 'C06': dict(level='exploration', ref='3/C06', tech='metamorphic run-time contracts (renaming, reordering, atom renaming, unreachable states) + fresh interpreters per PYTHONHASHSEED',
   text=B + '8 presentations per (K,f) and 4 (quick) / 32 (thorough) hash seeds.', note='finite sample of seeds and bijections'),
 'C07': dict(level='exploration', ref='3/C07', tech='frame obligations (pyvc + z3: every heap write goes to an object allocated during the call or named by the contract; nothing older than the call differs at exit, also on the TypeError exit) on the CTL labelling functions and CTL.modelcheck (with and without F), the LTL.modelcheck wrapper, the CTL* reduction (CTLS.modelcheck, _remove_state_subformulas, _checkQuantifiedFormula) and Kripke.label_fair_states/get_fair_states; deep-snapshot run-time contracts and repeatability over random interleavings decide the rest (bounded)',
   text='Deductive part: ~170 frame obligations of 16 functions discharged for all structures, object formulas and fairness constraints (writes reach only objects allocated during the call, or the CONTENTS of label sets of the clone). Assumed: compute_SCCs, _checkE_path_formula, CTL.modelcheck on arbitrary formula objects (cast leg), formula operations touch no structure. Bounded stand-in: snapshots of structure (incl. object identity of label/successor sets), formula tree, F argument and module/class state after every call; interleaved repetitions return equal results; text vs object.', note='bounded histories'),
 'C08': dict(level='exploration', ref='3/C08', tech='run-time contracts of constructors, cast_to and modelcheck guards against the documented grammars (wf_* written from logics.rst)',
   text=B + 'operator trees over the union alphabet exhaustive to depth 2, sampled depth 3, x 4 languages x {construct, mixed-language operands, cast_to, modelcheck}; non-formula arguments.', note='documented grammars transcribed in vf/spec/trees.py'),
 'C09': dict(level='exploration', ref='3/C09', tech='print->parse round trip with structural comparison; pairwise distinct printed forms (bounded; the parser is a Lark grammar string)',
   text=B + 'formulas of PL, LTL, CTL*, CTL (in CTL* notation) to depth 2-3, random to depth 5.', note='lark trusted'),
 'C10': dict(level='exploration', ref='3/C10', tech='contract-based deductive verification (pyvc + z3) of the wrapper Parser.__call__ against an ASSUMED contract of lark.Lark.parse (exception translation, class, position, string); which strings each grammar accepts: run-time contract + comparison with an independent parser of the documented grammar (bounded)',
   text='Deductive part: Parser.__call__ returns the transformer value or raises the package UnexpectedToken/UnexpectedCharacters (never lark\'s class, never another exception) carrying the same string and a position within [0, len(string)], given the assumed contract of Lark.parse. ' + B + 'valid strings cross-fed to all four parsers, token-level mutations, random token sequences, junk characters.', note='lark trusted (assumed contract); documented grammar = fixed transcription vf/spec/docgrammar.py'),
 'C11': dict(level='exploration', ref='3/C11', tech='run-time contracts of __eq__/__hash__/clone over all pairs of a formula pool per logic',
   text=B + 'all ordered pairs of a pool per logic (== iff same tree, symmetry, hash, dict/set key), transitivity on triples, Bool vs bool, clone freshness.', note='bounded pools'),
 'C12': dict(level='exploration', ref='3/C12', tech='run-time contract of compute_SCCs (partition + mutual reachability) over all digraphs <=4 nodes; body not within deductive reach',
   text=B + 'every digraph with <=4 nodes under several insertion orders, sampled 5-node, random <=12 nodes; oracle = closure-based mutual reachability.', note='compute_SCCs body is not proved (iterative Nuutila variant with suspended iterators)'),
 'C13': dict(level='proof', ref='3/C13', tech='contract-based deductive verification: pyvc (AST->VC generator over the real source of graph.py, heap model, sidecar contracts and loop invariants) discharged by z3; bounded run-time contracts as cross-check',
   text='Every obligation of the 12 DiGraph functions under contract (constructor, add_node/add_edge, accessors, clone, get_subgraph, get_reversed_graph, get_reachable_set_from - the latter also for an argument that is a set object aliasing a set of the caller or of the graph itself: functional postconditions over the whole view (V,E), raises-iff, frames, freshness, least-fixpoint characterisation of reachability) is generated from the current source and discharged for all graphs and all iteration orders; plus the bounded stand-in (all digraphs <=3/4 nodes). If an obligation is not discharged the run is not reported as proof.' + B[:0], note='Python semantics assumed by the VC encoding (E1-E6, DESIGN.md 2.2); z3 and the pyvc generator are trusted (vacuity probes, planted defects, bounded stand-in as cross-check); termination not proved.'),
 'C14': dict(level='proof', ref='3/C14', tech='contract-based deductive verification: pyvc + z3 on kripke.py (constructor incl. raises-iff-not-total, labels/next/states/transitions, clone, get_substructure) over the graph.py contracts; bounded run-time contracts as cross-check',
   text='Every obligation of the 8 Kripke functions under contract is generated from the current source and discharged for all argument combinations (optional S/S0/R/L, L possibly not a dict, non-iterable label values) and all subsets; callee contracts of graph.py are re-verified in the same run. Bounded stand-in: relations on <=3 states x argument shapes x all subsets.' + B[:0], note='Python semantics assumed by the VC encoding (E1-E6, DESIGN.md 2.2); z3 and the pyvc generator are trusted (vacuity probes, planted defects, bounded stand-in as cross-check); termination not proved. compute_SCCs is not involved.'),
 'C15': dict(level='exploration', ref='3/C15', tech='frame and safety obligations (pyvc + z3) of is_a_fair_SCC, get_fair_states, label_fair_states and CTL.modelcheck with F ("no call raises an internal error or modifies K"); what is computed: run-time contracts against CGP fair semantics (Emerson-Lei reference), known findings attributed through defect models (bounded)',
   text='Deductive part: ~240 obligations: nothing older than the call is written except the contents of label sets of the structure label_fair_states is applied to (the clone inside modelcheck); the results are new sets of states; compute_SCCs assumed. Bounded stand-in (decides): get_fair_states on every relation <=3 states x every F of <=2 subsets; fair modelcheck on small structures; three recorded findings (KF-C15-1..3) are recognised only when the output equals what the defect model predicts.', note='reference semantics trusted; fairness is largely known-defective on the pinned tree'),
 'C16': dict(level='exploration', ref='3/C16', tech='contract-based deductive verification (pyvc + z3) of the hash-consing table: find_isomorph (incl. the late-bound lambda), BDDNode.__reset__, BDDNonTerminalNode.__reset__/__new__ preserve the table invariant (parent sets consistent, reduced, no two registered non-terminals with the same (var,low,high)); GC histories and canonicity: representation-invariant scan after every step of random build/combine/drop/gc histories (bounded)',
   text='Deductive part: 96 obligations discharged for all creation histories without garbage collection (the invariant ranges over every node ever registered). GC interleavings, terminal nodes and "equal function iff same root" (Bryant canonicity, TB8) are decided by the bounded stand-in: seeded histories over pools of OBDDs with a scan of BDDNode.nodes() after every step.', note='WeakSet/GC semantics trusted (TB7)'),
 'C17': dict(level='exploration', ref='3/C17', tech='contract-based deductive verification (pyvc + z3) of __invert__ (both node classes), cache_restrict/compute_restrict, apply/compute and the three decomposition helpers against the denoted Boolean function (ghost denotation maintained by the node constructor); orderedness, reducedness of results, variables() and the OBDD wrapper: denotational run-time contracts + shape walk (bounded)',
   text='Deductive part: ~1,300 obligations: the result of ~f denotes the complement, of restrict the cofactor, of apply(op, f, g) op applied pointwise - for all nodes, all binary operators, all orderings and all cache contents that satisfy the cache invariant; result caches keyed by node identity handled by invariants; BDDTerminalNode.__new__ assumed. ' + B + 'expression pairs over <=4 variables, all orderings, all (v,b), truth tables on all assignments; ordered/reduced shape walk; variables(); ordering mismatches.', note='orderedness of results and the OBDD wrapper are bounded only; GC not modelled (TB7)'),
 'C18': dict(level='exploration', ref='3/C18', tech='contract-based deductive verification (pyvc + z3) of the expression parser of BDD/OBDD.py (parse_binary_expr and its four helpers) against value_of(ast): the OBDD denotes the expression on every assignment, SyntaxError exactly outside the accepted syntax; lambda vs expression form, printers and their round trip: run-time contracts (bounded)',
   text='Deductive part: ~1,350 obligations over Python ast nodes modelled as values with reader functions; and/or/not are synonyms of &,|,~ by the specification; n-ary and/or by fold invariants. ' + B + 'expressions to depth 4 over <=4 variables x argument orders (lambda vs expression, synonyms, print round trip, error classes); non-Boolean syntax list.', note='ast.parse trusted; identical OBDDs for equal functions need canonicity (TB8)'),
 'C19': dict(level='exploration', ref='3/C19', tech='safety obligations (pyvc + z3: no KeyError/IndexError/StopIteration/AttributeError/RuntimeError can leave the function, callee preconditions hold) and "the result is a new set of states of the caller\'s structure" on the CTL labelling functions, CTL.modelcheck (with and without F), the LTL.modelcheck wrapper and the CTL* reduction; run-time contract (fresh caller-owned set of states of K, heterogeneous states/labels) decides the rest (bounded)',
   text='Deductive part: ~550 safety obligations discharged for all structures and object formulas satisfying the arity invariant, with Python None not a state (KF-C19-1). Bounded stand-in: structures with str/tuple/mixed/None/float/frozenset states, non-string and operator-like labels, absent atoms; mutate result and call again.', note='RecursionError not claimed (resource bound)'),
}

NOT_YET = 'check not built yet in this session (work in progress; see DESIGN.md section 8 build order)'

ALL = ['C%02d' % i for i in range(1, 20)]


def main():
    checks = []
    na = []
    for pid in ALL:
        have = os.path.exists(os.path.join(ROOT, 'vf', 'props', pid + '.py'))
        if have and pid in P:
            p = P[pid]
            checks.append({
                'property_id': pid,
                'quick_cmd': './check %s --tier quick' % pid,
                'thorough_cmd': './check %s --tier thorough' % pid,
                'evidence_file': 'evidence/%s.json' % pid,
                'replay_cmd_template': './check %s --replay {path}' % pid,
                'engine': 'pyvc+rtc',
                'level_claimed': {'category': p['level'], 'text': p['text'],
                                  'design_ref': 'DESIGN.md section ' + p['ref']},
                'level_note': p['note'],
                'technique': p['tech'],
            })
        else:
            na.append({'property_id': pid, 'reason': NA.get(pid, NOT_YET)})
    m = {
        'version': 1,
        'setup_cmd': './setup.sh',
        'hooks': {'guard': 'PYMODELCHECKING_VERIF',
                  'enable': 'no source hooks: contracts are sidecar files under /verif, wrappers are installed only inside the checking process',
                  'baseline_off_cmd': 'cd /repo && /venv/bin/python -m pytest -ra -q -p no:cacheprovider --timeout=900 --continue-on-collection-errors',
                  'source_commits': [], 'add_only': True},
        'engines': [
            {'name': 'pyvc', 'path': 'vf/pyvc', 'serves_properties': sorted(PYVC),
             'kind_free_text': 'verification-condition generator: re-reads the real source of /repo with ast on every run, symbolic execution against sidecar contracts (vf/contracts), obligations discharged by z3 (cvc5 fallback)'},
            {'name': 'rtc', 'path': 'vf/rtc', 'serves_properties': [c['property_id'] for c in checks],
             'kind_free_text': 'bounded stand-in: the same contracts evaluated at run time on the real functions over exhaustive small scopes and seeded random inputs; always labelled bounded'},
        ],
        'checks': checks,
        'not_applicable': na,
        'notes': 'See DESIGN.md. Exit codes: 0 held, 1 VIOLATION printed, 3 checker crash. Known findings: known_findings.json.',
    }
    with open(os.path.join(ROOT, 'MANIFEST.json'), 'w') as fh:
        json.dump(m, fh, indent=1)
    print('claimed:', [c['property_id'] for c in checks], 'not_applicable:', [x['property_id'] for x in na])


NA = {}
PYVC = {'C01', 'C02', 'C03', 'C04', 'C05', 'C07', 'C10', 'C13', 'C14', 'C15', 'C16', 'C17', 'C18', 'C19'}

if __name__ == '__main__':
    main()
