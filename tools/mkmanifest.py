#!/usr/bin/env python3
"""Regenerate MANIFEST.json from the table below (only properties that have a
vf/props/<id>.py module are claimed; the rest go to not_applicable with the
reason given here)."""
import json
import os

ROOT = os.path.dirname(os.path.dirname(os.path.abspath(__file__)))

PYSEM = ('Python semantics assumed by the VC encoding (E1-E6 in DESIGN.md 2.2): mathematical hashable values, '
         'arbitrary-order set/dict iteration, mathematical ints, no monkey-patching, partial correctness only; '
         'z3/cvc5 and the pyvc generator itself are trusted (mitigated by front-end validation and planted defects).')

P = {
 'C13': dict(level='exploration', tech='contracts on DiGraph operations: AST->VC generator (pyvc) + z3; bounded run-time contracts as stand-in',
             text='Bounded: every digraph <=3 nodes (quick) / <=4 nodes (thorough) x every node subset, plus seeded random graphs, checked against the contract view (V,E)/closure. Deductive obligations, when present in the evidence, are discharged for all graphs.',
             note='bounded part: scope in evidence; ' + PYSEM, ref='3/C13'),
}

NOT_YET = 'check not built yet in this session (work in progress; see DESIGN.md section 8 build order)'

ALL = ['C%02d' % i for i in range(1, 20)]


def main():
    checks = []
    na = []
    for pid in ALL:
        have = os.path.exists(os.path.join(ROOT, 'vf', 'props', pid + '.py'))
        if have and pid in P:
            p = P[pid]
            checks.append({
                'property_id': pid,
                'quick_cmd': './check %s --tier quick' % pid,
                'thorough_cmd': './check %s --tier thorough' % pid,
                'evidence_file': 'evidence/%s.json' % pid,
                'replay_cmd_template': './check %s --replay {path}' % pid,
                'engine': 'pyvc+rtc',
                'level_claimed': {'category': p['level'], 'text': p['text'],
                                  'design_ref': 'DESIGN.md section ' + p['ref']},
                'level_note': p['note'],
                'technique': p['tech'],
            })
        else:
            na.append({'property_id': pid, 'reason': NA.get(pid, NOT_YET)})
    m = {
        'version': 1,
        'setup_cmd': './setup.sh',
        'hooks': {'guard': 'PYMODELCHECKING_VERIF',
                  'enable': 'no source hooks: contracts are sidecar files under /verif, wrappers are installed only inside the checking process',
                  'baseline_off_cmd': 'cd /repo && /venv/bin/python -m pytest -ra -q -p no:cacheprovider --timeout=900 --continue-on-collection-errors',
                  'source_commits': [], 'add_only': True},
        'engines': [
            {'name': 'pyvc', 'path': 'vf/pyvc', 'serves_properties': sorted(PYVC),
             'kind_free_text': 'verification-condition generator: re-reads the real source of /repo with ast on every run, symbolic execution against sidecar contracts (vf/contracts), obligations discharged by z3 (cvc5 fallback)'},
            {'name': 'rtc', 'path': 'vf/rtc', 'serves_properties': [c['property_id'] for c in checks],
             'kind_free_text': 'bounded stand-in: the same contracts evaluated at run time on the real functions over exhaustive small scopes and seeded random inputs; always labelled bounded'},
        ],
        'checks': checks,
        'not_applicable': na,
        'notes': 'See DESIGN.md. Exit codes: 0 held, 1 VIOLATION printed, 3 checker crash. Known findings: known_findings.json.',
    }
    with open(os.path.join(ROOT, 'MANIFEST.json'), 'w') as fh:
        json.dump(m, fh, indent=1)
    print('claimed:', [c['property_id'] for c in checks], 'not_applicable:', [x['property_id'] for x in na])


NA = {}
PYVC = set()

if __name__ == '__main__':
    main()
