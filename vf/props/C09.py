"""C09 - printing then parsing gives back the same formula (bounded: the parser
is a Lark grammar string interpreted by a trusted external engine)."""
import random

from ..rtc import driver
from . import lang_scope

CMD = './check C09'


def run(ctx):
    rng = random.Random(ctx.seed * 17 + 9)
    thorough = ctx.tier == 'thorough'
    ps = lang_scope.pools(rng, cap=1200 if not thorough else 8000, depth=2 if not thorough else 3,
                          extra_random=300 if not thorough else 3000, rdepth=5)
    cases = []
    inj = []
    for logic, pool in ps.items():
        for i in range(0, len(pool), 100):
            cases.append((logic, pool[i:i + 100]))
        inj.append((logic, pool))
    driver.run_cases(
        ctx, 'print-parse', 'vf.rtc.lang_rtc', 'check_roundtrip_case', cases, chunk=1,
        rule='formulas of PL, LTL, CTL* (native print) and CTL (printed in CTL* notation via cast_to, and natively) over identifier atoms '
             'p,q,x_1 with and/or of arity 2-3: enumeration to depth %d (sampled above the cap), seeded random to depth 5; p renamed to each of '
             '43 identifiers that begin like an operator or reserved word (Fail, Grant, Xfer_1, Up, AGx, nota, or_, True, ...) in every '
             'formula of <= 3 nodes and 24 sampled others; '
             'comparison is structural (class names, atom names, child order); distinct by (logic, tree)' % (3 if thorough else 2))
    driver.run_cases(ctx, 'print-injective', 'vf.rtc.lang_rtc', 'check_injective_case', inj, chunk=1,
                     rule='pairwise distinctness of printed forms over each pool')
    ctx.assumptions += ['lark.Lark (LALR tables built from the grammar strings) is a trusted external; no function body to put under contract, hence bounded']
    return 'exploration', CMD
