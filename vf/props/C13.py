"""C13 - reachability, reversal, subgraph, clone are exact and non-destructive."""
import random

from ..spec import gen
from ..rtc import driver

CMD = './check C13'


def bounded_cases(tier, seed):
    rng = random.Random(seed * 7919 + 13)
    cases = []
    for n in range(0, 4):
        for nodes, edges in gen.all_digraphs(n):
            for X in gen.all_subsets(nodes + ['#x']):
                cases.append((nodes, edges, sorted(X, key=repr)))
    exhaustive4 = tier == 'thorough'
    if exhaustive4:
        for nodes, edges in gen.all_digraphs(4):
            for X in gen.all_subsets(nodes):
                cases.append((nodes, edges, sorted(X)))
    else:
        g4 = list(gen.all_digraphs(4))
        for nodes, edges in rng.sample(g4, 1500):
            for _ in range(3):
                X = [v for v in nodes if rng.random() < 0.5]
                cases.append((nodes, edges, X))
    for _ in range(3000 if tier == 'thorough' else 300):
        nodes, edges = gen.random_digraph(rng, 12)
        names = [('n%d' % v if rng.random() < 0.3 else (v, 'k')) for v in nodes] \
            if rng.random() < 0.3 else nodes
        ren = dict(zip(nodes, names))
        nodes2 = [ren[v] for v in nodes]
        edges2 = [(ren[a], ren[b]) for a, b in edges]
        X = [v for v in nodes2 if rng.random() < 0.3]
        cases.append((nodes2, edges2, X))
    return cases, exhaustive4


def run(ctx):
    from . import deductive
    deductive.run_for(ctx, 'C13')
    cases, ex4 = bounded_cases(ctx.tier, ctx.seed)
    driver.run_cases(
        ctx, 'graph-ops', 'vf.rtc.graph_rtc', 'check_graph_case', cases,
        rule='every digraph with <=3 nodes x every subset of nodes+{non-node}'
             + ('; every digraph with 4 nodes x every node subset' if ex4 else
                '; 1500 sampled 4-node digraphs x 3 subsets')
             + '; seeded random digraphs <=12 nodes (int, str and tuple names); '
               'non-trivial = at least one edge and non-empty X; distinct by literal',
        nontrivial='graph_case_nontrivial', exhaustive=False)
    ctx.assumptions += ['bounded part: scope as stated in coverage.rule']
    return deductive.level_for(ctx, 'C13'), CMD
