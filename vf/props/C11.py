"""C11 - formula equality, hashing and cloning are coherent."""
import random

from ..rtc import driver
from . import lang_scope

CMD = './check C11'


def run(ctx):
    from . import deductive
    deductive.run_for(ctx, 'C11')
    rng = random.Random(ctx.seed * 13 + 11)
    n = 260 if ctx.tier == 'quick' else 900
    ps = lang_scope.pools(rng, cap=n)
    cases = []
    trip = []
    for logic, pool in ps.items():
        keep = len(lang_scope.MUST[logic]) + 40      # bracketing families and the leaves/depth-1 formulas are always kept
        pool = pool[:keep] + rng.sample(pool[keep:], min(len(pool) - keep, n - keep)) if len(pool) > n else pool
        step = max(1, len(pool) // 24)
        for lo in range(0, len(pool), step):
            cases.append((logic, pool, lo, min(len(pool), lo + step)))
        ts = []
        for _ in range(2000):
            a = rng.choice(pool)
            ts.append((a, rng.choice([a, rng.choice(pool)]), rng.choice([a, rng.choice(pool)])))
        trip.append((logic, ts))
    driver.run_cases(
        ctx, 'eq-hash-clone', 'vf.rtc.lang_rtc', 'check_eq_case', cases, chunk=1,
        rule='per logic (PL, LTL, CTL*, CTL) a pool of formulas over identifier atoms p,q,x_1 (depth<=2 enumeration, sampled above the cap of %d, '
             'ternary and/or): every ordered pair compared (== iff same tree, symmetry, hash, !=, dict/set key), every formula cloned '
             '(equal, same tree, no shared node or child list) and rebuilt from str/bool leaves; distinct by (logic, i, j)' % n)
    driver.run_cases(ctx, 'transitivity', 'vf.rtc.lang_rtc', 'check_triples_case', trip, chunk=1,
                     rule='2000 sampled triples per logic biased towards equal members')
    rew = []
    for logic, pool in ps.items():
        by_root = {}
        for t in pool:
            if t[0] not in ('ap', 'true', 'false'):
                by_root.setdefault(t[0], []).append(t)
        pairs = []
        for root, ts in sorted(by_root.items()):
            for _ in range(60):
                pairs.append((rng.choice(ts), rng.choice(ts)))
        rew.append((logic, pairs))
    driver.run_cases(ctx, 'rewrap', 'vf.rtc.lang_rtc', 'check_rewrap_case', rew, chunk=1,
                     rule='60 sampled pairs per logic and root operator: a formula that was hashed and used as a key, then given the operands of the '
                          'other through the public wrap_subformulas, is ==, hashes like and is one key with the formula built from those operands')
    driver.run_cases(ctx, 'bool-vs-bool', 'vf.rtc.lang_rtc', 'check_bool_eq_case', ['PL', 'CTL', 'LTL', 'CTLS'],
                     rule='Bool(b) against Python bool in both directions, every logic')
    ctx.assumptions += ['"== iff same tree" is injectivity of printing: bounded here and in C09, never proved']
    return deductive.level_for(ctx, 'C11'), CMD
