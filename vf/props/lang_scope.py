"""Formula pools per logic (shared by C09, C11)."""
from ..spec import gen

LEAVES = (('ap', 'p'), ('ap', 'q'), ('ap', 'x_1'), ('true',), ('false',))


def assoc_family(leaves=LEAVES):
    """nested-left / nested-right / flat forms of the n-ary connectives: different trees whose
    printed forms differ only in bracketing"""
    out = []
    a, b, c = leaves[0], leaves[1], leaves[2]
    for op in ('and', 'or'):
        for (x, y, z) in ((a, b, c), (a, a, b), (c, b, a)):
            out += [(op, (op, x, y), z), (op, x, (op, y, z)), (op, x, y, z)]
        other = 'or' if op == 'and' else 'and'
        out += [(op, (other, a, b), c), (op, a, (other, b, c))]
    return out


MUST = {}


def pools(rng, cap, depth=2, extra_random=0, rdepth=3):
    out = {}
    pl = gen.levels(gen.pl_ops(), depth, leaves=LEAVES, cap=cap, rng=rng)
    out['PL'] = [t for l in pl for t in l] + gen.nary_variants(LEAVES)
    pth = gen.levels(gen.path_ops(), depth, leaves=LEAVES, cap=cap, rng=rng)
    flat = [t for l in pth for t in l] + gen.nary_variants(LEAVES)
    out['LTL'] = flat + [('A', g) for g in rng.sample(flat, min(len(flat), max(50, cap // 4)))]
    st = gen.ctls_state_formulas(rng, max(100, cap // 2), 3, 2, leaves=LEAVES)
    out['CTLS'] = flat + st + [(q, g) for g in rng.sample(flat, min(len(flat), cap // 4)) for q in ('A', 'E')]
    ctl = gen.levels(gen.ctl_ops(), depth, leaves=LEAVES, cap=cap, rng=rng)
    out['CTL'] = [t for l in ctl for t in l] + gen.nary_variants(LEAVES)
    for _ in range(extra_random):
        out['PL'].append(gen.random_tree(rng, gen.pl_ops(), rdepth, LEAVES))
        out['LTL'].append(gen.random_tree(rng, gen.path_ops(), rdepth, LEAVES))
        out['CTL'].append(gen.random_tree(rng, gen.ctl_ops(), rdepth, LEAVES))
        out['CTLS'] += gen.ctls_state_formulas(rng, 1, 3, 2, leaves=LEAVES)
    fam = assoc_family()
    for k in out:
        out[k] = fam + out[k]
        MUST[k] = list(fam)
    for k in out:
        seen = set()
        uniq = []
        for t in out[k]:
            if t not in seen:
                seen.add(t)
                uniq.append(t)
        out[k] = uniq
    return out
