"""Formula pools per logic (shared by C09, C11)."""
from ..spec import gen

LEAVES = (('ap', 'p'), ('ap', 'q'), ('ap', 'x_1'), ('true',), ('false',))


def assoc_family(leaves=LEAVES):
    """nested-left / nested-right / flat forms of the n-ary connectives: different trees whose
    printed forms differ only in bracketing"""
    out = []
    a, b, c = leaves[0], leaves[1], leaves[2]
    for op in ('and', 'or'):
        for (x, y, z) in ((a, b, c), (a, a, b), (c, b, a)):
            out += [(op, (op, x, y), z), (op, x, (op, y, z)), (op, x, y, z)]
        other = 'or' if op == 'and' else 'and'
        out += [(op, (other, a, b), c), (op, a, (other, b, c))]
    return out


MUST = {}

BASE_ATOMS = ('p', 'q', 'x_1')
# identifiers, none of them a reserved word of any of the four grammars
KEYWORD_LIKE = ('Fail', 'Grant', 'Xfer_1', 'G_2', 'F1', 'Apple', 'Exit', 'Until', 'Rel', 'AGx', 'EFy', 'AXz', 'AUa', 'nota', 'andy',
                'orb', 'truex', 'falsey', 'True', 'False', '_p', 'U1', 'R2', 'A1', 'E_', 'XX', 'GF', 'AA', 'Not', 'notp', 'not_p',
                'or_', 'and1', 'true_', 'AFAIK', 'EXP', 'Up', 'Rq', 'Xp', 'Gq', 'Fp', 'Ap', 'Eq')


def rename_atom(t, old, new):
    if t[0] == 'ap':
        return ('ap', new) if t[1] == old else t
    return (t[0],) + tuple(rename_atom(x, old, new) if isinstance(x, tuple) else x for x in t[1:])


def mentions(t, name):
    if t[0] == 'ap':
        return t[1] == name
    return any(isinstance(x, tuple) and mentions(x, name) for x in t[1:])


def size(t):
    return 1 + sum(size(x) for x in t[1:] if isinstance(x, tuple))


def name_family(logic, pool, rng, per_name=24):
    """every small formula with p (<= 3 nodes: one operator applied to atoms) and a sample of the others, once per name"""
    withp = [t for t in pool if mentions(t, 'p')]
    small = [t for t in withp if size(t) <= 3]
    rest = [t for t in withp if size(t) > 3]
    out = []
    for name in KEYWORD_LIKE:
        for t in small + rng.sample(rest, min(len(rest), per_name)):
            out.append(rename_atom(t, 'p', name))
    return out


def pools(rng, cap, depth=2, extra_random=0, rdepth=3, names=True):
    out = {}
    pl = gen.levels(gen.pl_ops(), depth, leaves=LEAVES, cap=cap, rng=rng)
    out['PL'] = [t for l in pl for t in l] + gen.nary_variants(LEAVES)
    pth = gen.levels(gen.path_ops(), depth, leaves=LEAVES, cap=cap, rng=rng)
    flat = [t for l in pth for t in l] + gen.nary_variants(LEAVES)
    out['LTL'] = flat + [('A', g) for g in rng.sample(flat, min(len(flat), max(50, cap // 4)))]
    st = gen.ctls_state_formulas(rng, max(100, cap // 2), 3, 2, leaves=LEAVES)
    out['CTLS'] = flat + st + [(q, g) for g in rng.sample(flat, min(len(flat), cap // 4)) for q in ('A', 'E')]
    ctl = gen.levels(gen.ctl_ops(), depth, leaves=LEAVES, cap=cap, rng=rng)
    out['CTL'] = [t for l in ctl for t in l] + gen.nary_variants(LEAVES)
    for _ in range(extra_random):
        out['PL'].append(gen.random_tree(rng, gen.pl_ops(), rdepth, LEAVES))
        out['LTL'].append(gen.random_tree(rng, gen.path_ops(), rdepth, LEAVES))
        out['CTL'].append(gen.random_tree(rng, gen.ctl_ops(), rdepth, LEAVES))
        out['CTLS'] += gen.ctls_state_formulas(rng, 1, 3, 2, leaves=LEAVES)
    fam = assoc_family()
    for k in out:
        out[k] = fam + out[k]
        MUST[k] = list(fam)
    # identifier-style atom names that begin like an operator or a reserved word (C09, C11: "identifier-style atom
    # names", "not reserved words"): a sample of each pool with p renamed
    # (not for C10: where keywords and identifiers overlap the documented grammar does not say how text is split)
    for k in out:
        if names:
            out[k] = out[k] + name_family(k, out[k], rng)
    for k in out:
        seen = set()
        uniq = []
        for t in out[k]:
            if t not in seen:
                seen.add(t)
                uniq.append(t)
        out[k] = uniq
    return out
