"""C08 - formula objects belong to their logic; out-of-logic input is rejected."""
import random

from ..spec import gen
from ..rtc import driver
from ..rtc.lang_rtc import LANGS

CMD = './check C08'

UNION_UN = ('not', 'X', 'F', 'G', 'A', 'E')
UNION_BIN = ('and', 'or', 'imply', 'U', 'R')
LEAVES = (('ap', 'p'), ('true',))


def union_ops():
    return ([lambda a, t=t: (t, a) for t in UNION_UN],
            [lambda a, b, t=t: (t, a, b) for t in UNION_BIN])


def wrong_arity_trees():
    p, q, r = ('ap', 'p'), ('ap', 'q'), ('true',)
    out = []
    for t in UNION_UN:
        out += [(t,), (t, p, q)]
    for t in ('imply', 'U', 'R'):
        out += [(t, p), (t, p, q, r)]
    for t in ('and', 'or'):
        out += [(t,), (t, p)]
    out += [('not', (t, p, q, r)) for t in ('U', 'imply')]
    out += [('A', ('G', ('U', p, q, r))), ('A', ('X', p, q)), ('E', ('U', p))]
    return out


def run(ctx):
    from . import deductive
    deductive.run_for(ctx, 'C08')
    rng = random.Random(ctx.seed * 11 + 8)
    lv = gen.levels(union_ops(), 3, leaves=LEAVES, cap=6000 if ctx.tier == 'quick' else 40000, rng=rng)
    ts = lv[0] + lv[1] + lv[2] + lv[3]
    d3 = len(lv[3])
    cases = []
    for t in ts:
        for Ln in LANGS:
            cases.append(('construct', Ln, Ln, t))
    sub = lv[0] + lv[1] + lv[2] + rng.sample(lv[3], min(len(lv[3]), 1500))
    for t in sub:
        for Ln in LANGS:
            for Mn in LANGS:
                if Ln != Mn:
                    cases.append(('mixed', Ln, Mn, t))
                    cases.append(('cast', Ln, Mn, t))
                if Ln != 'PL' and Mn != 'PL':
                    cases.append(('modelcheck', Ln, Mn, t))
    for t in wrong_arity_trees():
        for Ln in LANGS:
            cases.append(('construct', Ln, Ln, t))
            cases.append(('cast', Ln, 'CTLS', t))
            if Ln != 'PL':
                cases.append(('modelcheck', Ln, 'CTLS', t))
    driver.run_cases(
        ctx, 'construct-cast-guard', 'vf.rtc.lang_rtc', 'check_construct_case', cases,
        rule='operator trees over the union alphabet {not,and,or,imply,X,F,G,U,R,A,E} with leaves p/true: exhaustive to depth 2 (%d trees), '
             'depth 3 %s (%d); x 4 languages x {construct with str/bool leaves, root operator over operands of another language, cast_to, modelcheck}; '
             'plus wrong-arity trees; expected outcome from the documented grammars (vf/spec/trees.py wf_*); distinct by (mode, languages, tree)'
             % (len(lv[0] + lv[1] + lv[2]), 'sampled', d3),
        nontrivial=None)
    g = [(Ln, w) for Ln in LANGS for w in ('int', 'none', 'list', 'float', 'object', 'tuple', 'non-kripke')]
    driver.run_cases(ctx, 'non-formula-arguments', 'vf.rtc.lang_rtc', 'check_guard_case', g,
                     rule='non-formula operands / non-formula formula argument / non-Kripke structure for every language and entry point')
    return deductive.level_for(ctx, 'C08'), CMD
