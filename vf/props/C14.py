"""C14 - Kripke structures are total, fully labelled, and copy faithfully."""
import itertools
import random

from ..spec import gen
from ..rtc import driver

CMD = './check C14'


def cases_for(tier, seed):
    rng = random.Random(seed * 31337 + 14)
    cases = []
    labsets = [[], ['p'], ['p', 'q']]
    nmax = 3
    for n in range(1, nmax + 1):
        st = list(range(n))
        pairs = [(a, b) for a in st for b in st]
        rels = []
        for mask in range(1 << len(pairs)):
            rels.append([pairs[i] for i in range(len(pairs)) if mask >> i & 1])
        if n == 3 and tier != 'thorough':
            rels = rng.sample(rels, 160)
        for R in rels:
            # a few argument shapes per relation
            shapes = []
            for _ in range(3 if n < 3 else 2):
                S = rng.choice([None, st, st[:1], st + ['x']])
                S0 = rng.choice([None, [], st[:1], st, [0, '#out'], ['#out']])
                L = {s: list(rng.choice(labsets)) for s in st if rng.random() < 0.7}
                if rng.random() < 0.2:
                    L['#nostate'] = ['p']
                if rng.random() < 0.05:
                    L = rng.choice([[('0', 'p')], 'pq', 7])
                shapes.append((S, S0, L))
            for S, S0, L in shapes:
                Vs = set(S or []) | set(a for a, b in R) | set(b for a, b in R)
                for X in gen.all_subsets(sorted(Vs, key=repr)):
                    cases.append((S, S0, R, L, sorted(X, key=repr)))
                cases.append((S, S0, R, L, sorted(Vs, key=repr) + ['#nostate']))
    if tier == 'thorough':
        for _ in range(3000):
            S, R, L = gen.random_kripke_data(rng, 4)
            L = {k: sorted(v) for k, v in L.items()}
            if rng.random() < 0.3 and R:
                R = [e for e in R if rng.random() < 0.8]
            X = [s for s in S if rng.random() < 0.6]
            cases.append((S, rng.choice([None, S[:1], S]), R, L, X))
    return cases


def run(ctx):
    from . import deductive
    deductive.run_for(ctx, 'C14')
    cases = cases_for(ctx.tier, ctx.seed)
    driver.run_cases(
        ctx, 'kripke-ops', 'vf.rtc.kripke_rtc', 'check_kripke_case', cases,
        rule='relations on <=3 states (all on <=2, %s on 3) incl. non-total ones x sampled shapes of S/S0/L '
             '(S None/partial/with an isolated extra state, S0 outside S, labels for non-states, L not a dict) x every '
             'subset X of the states (plus a non-state); non-trivial = non-empty R and some non-empty label; distinct by literal'
             % ('all' if ctx.tier == 'thorough' else '160 sampled'),
        nontrivial='kripke_case_nontrivial')
    return deductive.level_for(ctx, 'C14'), CMD
