"""C12 - strongly connected components are computed exactly (contract stated,
body bounded only: see DESIGN.md 3/C12)."""
import itertools
import random

from ..spec import gen
from ..rtc import driver

CMD = './check C12'


def cases_for(tier, seed):
    rng = random.Random(seed * 104729 + 12)
    cases = []
    for n in range(0, 4):
        for nodes, edges in gen.all_digraphs(n):
            for perm in itertools.permutations(nodes):
                cases.append((list(perm), edges))
                cases.append((list(perm), list(reversed(edges))))
    orders4 = list(itertools.permutations(range(4)))
    for nodes, edges in gen.all_digraphs(4):
        picks = orders4 if tier == 'thorough' and len(edges) in (4, 5, 6) \
            else [orders4[0], rng.choice(orders4)]
        for perm in picks:
            e2 = list(edges)
            if perm is not orders4[0]:
                rng.shuffle(e2)
            cases.append((list(perm), e2))
    n5 = 40000 if tier == 'thorough' else 3000
    pairs5 = [(a, b) for a in range(5) for b in range(5)]
    for _ in range(n5):
        k = rng.randint(0, 12)
        edges = rng.sample(pairs5, k)
        nodes = list(range(5))
        rng.shuffle(nodes)
        cases.append((nodes, edges))
    for _ in range(5000 if tier == 'thorough' else 500):
        cases.append(gen.random_digraph(rng, 12))
    return cases


def run(ctx):
    from . import deductive
    deductive.run_for(ctx, 'C12')
    cases = cases_for(ctx.tier, ctx.seed)
    driver.run_cases(
        ctx, 'scc', 'vf.rtc.graph_rtc', 'check_scc_case', cases,
        rule='every labelled digraph with <=3 nodes under every node insertion order and 2 edge orders; '
             'every digraph with 4 nodes (65,536 edge sets) under >=2 insertion orders; sampled 5-node and '
             'seeded random <=12-node digraphs; oracle = mutual reachability by closure; per graph also: a second call, a call after a generator '
             'abandoned at its first component (on a fresh graph object), a call after add_edge of a missing edge; '
             'non-trivial = at least one edge; distinct by literal (nodes order, edge order)',
        nontrivial='scc_case_nontrivial', exhaustive=False)
    driver.run_cases(ctx, 'scc-type', 'vf.rtc.graph_rtc', 'check_scc_type', [0],
                     rule='non-DiGraph arguments raise TypeError')
    ctx.assumptions += ['compute_SCCs body is NOT proved (iterative Nuutila variant with suspended iterators; DESIGN.md 3/C12); '
                        'its contract is checked at run time only, over the stated scope']
    return 'exploration', CMD
