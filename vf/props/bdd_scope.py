import itertools
import random

VARS = ['a', 'b', 'c', 'd']


def exprs(depth, vs, rng=None, cap=None):
    """expressions to a depth over vs (binary &,| and ~), exhaustive by level, sampled above cap"""
    lv = [[('v', v) for v in vs] + [('c', 0), ('c', 1)]]
    for _ in range(depth):
        lower = [e for l in lv[:-1] for e in l]
        top = lv[-1]
        new = [('~', e) for e in top]
        npairs = len(top) * (len(top) + 2 * len(lower))
        if cap and npairs * 2 > cap:
            allp = lower + top
            pairs = []
            for _ in range(cap // 2):
                a, b = rng.choice(top), rng.choice(allp)
                pairs.append((a, b) if rng.random() < 0.5 else (b, a))
        else:
            pairs = [(a, b) for a in top for b in top] + [(a, b) for a in top for b in lower] + [(b, a) for a in top for b in lower]
        for a, b in pairs:
            new.append(('&', a, b))
            new.append(('|', a, b))
        lv.append(new)
    return lv


# variable namings: the checks' expressions are written over a, b, c, d; half of the cases are renamed to names with
# several characters, names whose string order differs from every ordering ('x10' < 'x9'), and names that begin like a
# Python keyword or constant (C17/C18 speak of "variables", not of one-letter names)
NAMINGS = [
    {'a': 'x1', 'b': 'x10', 'c': 'x9', 'd': 'x2'},
    {'a': 'req', 'b': 'ack', 'c': 'busy', 'd': 'done'},
    {'a': 'not_a', 'b': 'and1', 'c': 'True_x', 'd': 'or_'},
    {'a': 'B', 'b': 'a_', 'c': '_c', 'd': 'dd'},
]


def rename_expr(e, m):
    if e[0] == 'v':
        return ('v', m[e[1]])
    if e[0] == 'c':
        return e
    return (e[0],) + tuple(rename_expr(c, m) for c in e[1:])


def rename_cases(cases):
    """every second case renamed (cases are tuples of an ordering list followed by expressions)"""
    out = []
    for i, case in enumerate(cases):
        if i % 2 == 0:
            out.append(case)
            continue
        m = NAMINGS[(i // 2) % len(NAMINGS)]
        out.append(tuple([m[v] for v in x] if isinstance(x, list) else rename_expr(x, m) for x in case))
    return out
