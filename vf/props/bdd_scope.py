import itertools
import random

VARS = ['a', 'b', 'c', 'd']


def exprs(depth, vs, rng=None, cap=None):
    """expressions to a depth over vs (binary &,| and ~), exhaustive by level, sampled above cap"""
    lv = [[('v', v) for v in vs] + [('c', 0), ('c', 1)]]
    for _ in range(depth):
        lower = [e for l in lv[:-1] for e in l]
        top = lv[-1]
        new = [('~', e) for e in top]
        npairs = len(top) * (len(top) + 2 * len(lower))
        if cap and npairs * 2 > cap:
            allp = lower + top
            pairs = []
            for _ in range(cap // 2):
                a, b = rng.choice(top), rng.choice(allp)
                pairs.append((a, b) if rng.random() < 0.5 else (b, a))
        else:
            pairs = [(a, b) for a in top for b in top] + [(a, b) for a in top for b in lower] + [(b, a) for a in top for b in lower]
        for a, b in pairs:
            new.append(('&', a, b))
            new.append(('|', a, b))
        lv.append(new)
    return lv
