"""Scopes shared by the model-checking properties (C01-C04, C06, C07, C19)."""
import random

from ..spec import gen


def small_kripkes(rng, n3):
    """all structures with 1 and 2 states over atoms p,q; n3 sampled (or all if
    n3 is None) with 3 states"""
    ks = list(gen.all_kripke_data(1)) + list(gen.all_kripke_data(2))
    if n3 is None:
        ks += list(gen.all_kripke_data(3))
    else:
        k3 = []
        rels = list(gen.total_relations(3))
        labs = list(gen.labellings(3))
        for _ in range(n3):
            k3.append((list(range(3)), rng.choice(rels), rng.choice(labs)))
        ks += k3
    return [(S, R, {s: sorted(l) for s, l in L.items()}) for S, R, L in ks]


def chunked(logic, ks, formulas_for, opts=None):
    """one case per structure"""
    return [(logic, k, formulas_for(i, k), dict(opts or {})) for i, k in enumerate(ks)]
