"""C15 - fairness restricts path quantifiers to fair paths."""
import random

from ..spec import gen
from ..rtc import driver
from . import mc_scope

CMD = './check C15'


def run(ctx):
    from . import deductive
    deductive.run_for(ctx, 'C15')
    rng = random.Random(ctx.seed * 47 + 15)
    thorough = ctx.tier == 'thorough'
    # get_fair_states: every relation on <=3 states x every F of <=2 subsets
    fs_cases = []
    for n in (1, 2, 3):
        rels = list(gen.total_relations(n))
        if n == 3 and not thorough:
            rels = rng.sample(rels, 120)
        for R in rels:
            for F in gen.fairness_lists(range(n), 2):
                fs_cases.append(((list(range(n)), R, {}), [sorted(P) for P in F]))
    for _ in range(2000 if thorough else 200):
        S, R, L = gen.random_kripke_data(rng, 6)
        F = [[s for s in S if rng.random() < 0.4] for _ in range(rng.randint(0, 3))]
        fs_cases.append(((S, R, {}), F))
    # constraints given with elements that are not states (only their states matter), padded up to and beyond |S|
    for _ in range(400 if thorough else 150):
        S, R, L = gen.random_kripke_data(rng, 6)
        F = [[s for s in S if rng.random() < 0.4] + [('#nostate', i) for i in range(rng.randint(1, len(S) + 2))] for _ in range(rng.randint(1, 2))]
        fs_cases.append(((S, R, {}), F))
    driver.run_cases(
        ctx, 'get_fair_states', 'vf.rtc.fair_rtc', 'check_fair_states_case', fs_cases,
        rule='every total relation on <=2 states and %s on 3 states x every list F of <=2 state subsets; seeded random structures <=6 states x '
             '<=3 random subsets, also padded with up to |S|+2 elements that are not states; structures built with initial states none/first/last/all (fixed per structure, gen.initial_states); reference = Emerson-Lei fixpoint (vf/spec/sem.py fair_states); non-trivial = non-empty F; distinct by literal'
             % ('all' if thorough else '120 sampled'),
        nontrivial='fair_states_nontrivial')
    ctl = gen.levels(gen.ctl_ops(), 2, cap=300, rng=rng)
    ctl = ctl[0] + ctl[1] + ctl[2]
    pth = gen.levels(gen.path_ops(), 1)
    ltl = [('A', g) for g in pth[0] + pth[1]]
    ctls = gen.ctls_state_formulas(rng, 200, 2, 2)
    ks = mc_scope.small_kripkes(rng, 400 if thorough else 40)
    cases = []
    for k in ks:
        S = k[0]
        Fl = [None, [], [list(S)]] + [[sorted(P) for P in F] for F in rng.sample(list(gen.fairness_lists(S, 2)), min(4, 1 << len(S)))]
        for F in Fl:
            cases.append(('CTL', k, F, rng.sample(ctl, 10)))
            cases.append(('CTLS', k, F, rng.sample(ctls, 3)))
            cases.append(('LTL', k, F, rng.sample(ltl, 2)))
    driver.run_cases(
        ctx, 'fair-modelcheck', 'vf.rtc.fair_rtc', 'check_fair_mc_case', cases, chunk=4,
        rule='every total structure with <=2 states and %s 3-state structures x F in {None, [], [S], 4 sampled lists of <=2 subsets} x formulas '
             '(10 CTL, 3 CTL*, 2 LTL), initial states none/first/last/all (fixed per structure): exact fair (CGP) semantics, F=None equals no F, no internal error, structure unmodified; '
             'distinct by (logic, K, F, formula)' % ('400' if thorough else '40'))
    return deductive.level_for(ctx, 'C15'), CMD
