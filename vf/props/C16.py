"""C16 - equal Boolean functions share one OBDD under every creation/GC history."""
import random

from ..rtc import driver

CMD = './check C16'


def run(ctx):
    from . import deductive
    deductive.run_for(ctx, 'C16')
    thorough = ctx.tier == 'thorough'
    n = 2000 if thorough else 160
    steps = 120 if thorough else 60
    cases = [(ctx.seed * 100003 + i, steps, 1 + i % 4) for i in range(n)]
    driver.run_cases(
        ctx, 'histories', 'vf.rtc.bdd_rtc', 'check_history_case', cases, chunk=2,
        rule='%d seeded random histories of %d steps (parse, &,|,^,~, restrict, drop references, gc.collect) over a pool of OBDDs on one ordering '
             'of 1-4 variables; after every step: == iff equal truth table iff identical root against the newest OBDD, orderedness/reducedness of every '
             'pooled diagram, and a scan of BDDNode.nodes() for duplicate (var,low,high), identical children and parent-set membership; '
             'distinct by seed' % (n, steps))
    ctx.assumptions += ['TB7 weakref.WeakSet/garbage collector semantics trusted', 'TB8 Bryant canonicity theorem (used only by the deductive part)']
    return deductive.level_for(ctx, 'C16'), CMD
