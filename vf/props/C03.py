"""C03 - CTL* model checking is exact for arbitrary nesting."""
import random

from ..spec import gen
from ..rtc import driver
from . import mc_scope

CMD = './check C03'


def run(ctx):
    from . import deductive
    deductive.run_for(ctx, 'C03')
    rng = random.Random(ctx.seed * 48611 + 3)
    thorough = ctx.tier == 'thorough'
    # quantifier over an arbitrary path formula (depth<=2), plus nested random
    lv = gen.levels(gen.path_ops(), 2, cap=250, rng=rng)
    paths = [g for g in lv[0] + lv[1] + lv[2] if gen.count_temporal(g) <= 3]
    flat = [(q, g) for g in paths for q in ('A', 'E')]
    nested = gen.ctls_state_formulas(rng, 3000 if thorough else 500, 3, 2)
    ks = mc_scope.small_kripkes(rng, 1200 if thorough else 100)
    nsmall = 4 + 144

    def pick(i, k):
        if i < 4:
            return flat + nested
        if i < nsmall:
            return rng.sample(flat, 60 if thorough else 20) + rng.sample(nested, 60 if thorough else 20)
        return rng.sample(flat, 25) + rng.sample(nested, 25)
    cases = mc_scope.chunked('CTLS', ks, pick, {'certify': True})
    driver.run_cases(
        ctx, 'ctls-exact', 'vf.rtc.mc_rtc', 'check_mc_case', cases, chunk=2,
        rule='every total Kripke structure with <=2 states over p,q and %s 3-state structures x CTL* state formulas: A/E over every path formula '
             'of depth <=1 and sampled depth 2 (<=3 temporal operators), and seeded random formulas with quantifier nesting <=2 and Boolean '
             'combinations of temporal operators; lasso-certified; non-trivial = answer neither empty nor all; distinct by (K, formula)'
             % ('1200 sampled' if thorough else '100 sampled'))
    rk = []
    for _ in range(400 if thorough else 40):
        S, R, L = gen.random_kripke_data(rng, 5)
        rk.append(('CTLS', (S, R, {s: sorted(l) for s, l in L.items()}),
                   gen.ctls_state_formulas(rng, 8, 3, 2), {'text': True}))
    driver.run_cases(ctx, 'ctls-random', 'vf.rtc.mc_rtc', 'check_mc_case', rk, chunk=2,
                     rule='seeded random structures <=5 states x 8 random CTL* state formulas, as object and as text')
    ctx.assumptions += ['LTL.modelcheck contract is bounded only (C02); CTL.modelcheck contract per C01']
    return 'exploration', CMD
