"""C19 - every well-formed query returns a fresh set of the structure's own states."""
import random

from ..spec import gen
from ..rtc import driver

CMD = './check C19'

STATE_POOLS = [
    ['s0', 's1', 's2'], [(0, 'a'), (1, 'b'), (0, 'b')], [0, 's', (1, 2)], [frozenset([1]), 1.5, 'x'],
    [True, 2, 'True'], [None, 1, 'n'], ['', ' ', 'A'], [-1, 10 ** 20, 'E'],
]
LABEL_POOLS = [['p', 'q'], ['p', 3], ['U', 'A'], ['or', 'p'], [('p',), 'p'], ['p', None], ['X', 'q'], ['not', 'q']]
ATOM_POOLS = [('p', 'q'), ('p', 'zz'), ('U', 'A'), ('or', 'p'), ('X', 'not'), ('absent', 'alsoabsent')]


def weird_kripkes(rng, n):
    out = []
    rels = {k: list(gen.total_relations(k)) for k in (1, 2, 3)}
    for _ in range(n):
        st = list(rng.choice(STATE_POOLS))
        k = rng.randint(1, 3)
        st = st[:k]
        R = [(st[a], st[b]) for a, b in rng.choice(rels[k])]
        labs = rng.choice(LABEL_POOLS)
        L = {s: [l for l in labs if rng.random() < 0.5] for s in st if rng.random() < 0.85}
        rng.shuffle(R)
        out.append((st, R, L))
    return out


def with_atoms(t, atoms):
    if t[0] == 'ap':
        return ('ap', atoms[0] if t[1] == 'p' else atoms[1])
    if t[0] in ('true', 'false'):
        return t
    return (t[0],) + tuple(with_atoms(c, atoms) for c in t[1:])


def run(ctx):
    from . import deductive
    deductive.run_for(ctx, 'C19')
    rng = random.Random(ctx.seed * 31 + 19)
    thorough = ctx.tier == 'thorough'
    nk = 1500 if thorough else 150
    ctl = gen.levels(gen.ctl_ops(), 2, cap=500, rng=rng)
    ctl = ctl[0] + ctl[1] + ctl[2]
    pth = gen.levels(gen.path_ops(), 2, cap=300, rng=rng)
    ltl = [('A', g) for g in pth[0] + pth[1] + pth[2] if gen.count_temporal(g) <= 3]
    ctls = gen.ctls_state_formulas(rng, 400, 3, 2)
    cases = []
    for logic, pool, per in (('CTL', ctl, 30), ('LTL', ltl, 8), ('CTLS', ctls, 8)):
        for kd in weird_kripkes(rng, nk):
            ts = [with_atoms(t, rng.choice(ATOM_POOLS)) for t in rng.sample(pool, per)]
            cases.append((logic, kd, ts))
    # dedicated: the fresh-atom name used by the CTL* reduction already occurs in the formula
    for kd in weird_kripkes(rng, 20):
        cases.append(('CTLS', kd, [('and', ('ap', '[E(X(p))]'), ('E', ('X', ('ap', 'p')))),
                                   ('or', ('ap', '[A(F(G(q)))]'), ('A', ('F', ('G', ('ap', 'q')))))]))
    driver.run_cases(
        ctx, 'fresh-own-states', 'vf.rtc.mc_rtc', 'check_fresh_case', cases, chunk=4,
        rule='%d seeded structures per logic with <=3 states drawn from heterogeneous pools (str, tuple, mixed int/str/tuple, frozenset/float, bool/int, '
             'None, empty string, big ints), labels with non-strings and operator-like names, x formulas of CTL (30), LTL (8), CTL* (8) whose atoms '
             'are operator-like or absent from K: result is a set of states of K, exact, not an internal set, and a second call after mutating the '
             'first result returns the same value; distinct by (logic, K, formula)' % nk)
    ctx.assumptions += ['RecursionError (stack depth) is a resource bound and is not claimed (E5)']
    return deductive.level_for(ctx, 'C19'), CMD
