"""C10 - parsers reject text outside their language with a positioned
ParserError (wrapper under contract; language membership bounded)."""
import random

from ..spec import trees
from ..rtc import driver
from . import lang_scope

CMD = './check C10'

TOKENS = ['p', 'q', 'r', 'true', 'false', 'not', '~', 'or', '|', 'and', '&', '-->', '(', ')',
          'A', 'E', 'X', 'F', 'G', 'U', 'R', '"s t"']
JUNK = ['$', '->', '-', '1', '#', '"', ')(', '\\', '=', 'é', '\n', '\t', ',', '.', '<->', "'p'"]
LOGICS = ('PL', 'CTL', 'LTL', 'CTLS')


def toks(text):
    return text.replace('(', ' ( ').replace(')', ' ) ').split()


def mutate(rng, ts):
    ts = list(ts)
    k = rng.randrange(4)
    if k == 0 and ts:
        del ts[rng.randrange(len(ts))]
    elif k == 1:
        ts.insert(rng.randrange(len(ts) + 1), rng.choice(TOKENS))
    elif k == 2 and len(ts) > 1:
        i = rng.randrange(len(ts) - 1)
        ts[i], ts[i + 1] = ts[i + 1], ts[i]
    elif ts:
        ts[rng.randrange(len(ts))] = rng.choice(TOKENS)
    return ts


def run(ctx):
    from . import deductive
    deductive.run_for(ctx, 'C10')
    rng = random.Random(ctx.seed * 19 + 10)
    thorough = ctx.tier == 'thorough'
    ps = lang_scope.pools(rng, cap=400, depth=2, extra_random=100, rdepth=4, names=False)
    valid = {}
    for logic, pool in ps.items():
        pool = rng.sample(pool, min(len(pool), 400 if not thorough else 2000))
        valid[logic] = [trees.to_text(t) for t in pool]
    cases = []
    nmut = 4 if not thorough else 40
    for src in LOGICS:
        strings = list(valid[src])
        for s in valid[src]:
            t = toks(s)
            for _ in range(nmut):
                m = mutate(rng, t)
                if rng.random() < 0.3:
                    m = mutate(rng, m)
                strings.append(' '.join(m))
        for dst in LOGICS:              # cross-feeding included (src != dst)
            for i in range(0, len(strings), 400):
                cases.append((dst, strings[i:i + 400], True))
    rnd = []
    for _ in range(6000 if not thorough else 120000):
        n = rng.randint(1, 8)
        rnd.append(' '.join(rng.choice(TOKENS) for _ in range(n)))
    for dst in LOGICS:
        for i in range(0, len(rnd), 500):
            cases.append((dst, rnd[i:i + 500], True))
    # strings with junk characters and keyword-like atoms: contract only (no grammar comparison,
    # because keyword/identifier overlap makes the documented grammar ambiguous there)
    junk = ['', ' ', 'Ap', 'AF p', 'AX', 'EG q', 'Xp', 'U', 'A', 'true1', 'nota', 'p U', 'U p', 'A G', '((p)', 'p)']
    for _ in range(1500 if not thorough else 20000):
        n = rng.randint(1, 6)
        junk.append(' '.join(rng.choice(TOKENS + JUNK) for _ in range(n)))
    for dst in LOGICS:
        for i in range(0, len(junk), 500):
            cases.append((dst, junk[i:i + 500], False))
    # a character outside the documented alphabet put INTO valid text (inside or next to an atom, between tokens):
    # contract + "not accepted" (compare=None: decided by the alphabet alone, independent of how text is split)
    ALIEN = ['\u00e9', '\u0663', '\u00b2', '\u00df', '\u03a9', '\u00f1', '\u00fc', '\u00a0', '\x0b', '\u2028', '$', '#', '=', '.', ',', '%', '@', '!', '?',
             '[', ']', '{', '}', ';', ':', '<', '>', '-', '+', '*', '/', '\\', "'", '^', '`', '\u4e2d', '\u0416', '\u00aa', '\u2160']
    for dst in LOGICS:
        alien = []
        for s_ in valid[dst]:
            for _ in range(2 if not thorough else 10):
                i = rng.randint(0, len(s_))
                if rng.random() < 0.6:
                    # right after a letter (so that a widened identifier pattern would swallow it)
                    letters = [j + 1 for j, ch in enumerate(s_) if ch.isalnum() or ch == '_']
                    if letters:
                        i = rng.choice(letters)
                alien.append(s_[:i] + rng.choice(ALIEN) + s_[i:])
        for i in range(0, len(alien), 400):
            cases.append((dst, alien[i:i + 400], None))
    driver.run_cases(
        ctx, 'parse-contract', 'vf.rtc.lang_rtc', 'check_parse_case', cases, chunk=1,
        rule='valid formulas of every logic (independent printer) fed to all four parsers (cross-feeding), %d token-level mutations each '
             '(delete/insert/swap/replace), random token sequences of length 1-8, strings with junk characters / keyword-like atoms, and valid '
             'text with one character outside the documented alphabet (non-ASCII letters and digits, other blanks, punctuation) inserted, mostly right after a letter; '
             'contract: a formula of exactly this logic (classes and documented grammar) or the package ParserError with in-range position; '
             'acceptance and tree compared with the fixed transcription of the documented grammar (vf/spec/docgrammar.py); '
             'non-trivial = accepted strings (and documented-but-rejected ones); distinct by (logic, string)' % nmut)
    ctx.assumptions += ['lark.Lark.parse is a trusted external: which strings a grammar accepts is data interpreted by Lark; bounded only',
                        'documented grammar = fixed transcription in vf/spec/docgrammar.py of the grammars published by the user manual at the pinned commit']
    return 'exploration', CMD
