"""Glue between property modules and the pyvc engine (filled in as the engine
grows).  run_for(ctx, prop) generates and discharges the obligations owned or
relied on by the property; level_for says which level this run supports."""


def run_for(ctx, prop):
    try:
        from ..pyvc import engine
    except ImportError:
        return
    engine.run_property(ctx, prop)


def level_for(ctx, prop):
    own = [o for o in ctx.obligations]
    if own and all(o['status'] == 'discharged' for o in own) and \
            prop in PROOF_LEVEL:
        return 'proof'
    return 'exploration'


# properties whose deciding part is deductive (see DESIGN.md section 0)
PROOF_LEVEL = set()
