"""Glue between property modules and the pyvc engine.

run_for(ctx, prop): generate and discharge the obligations of every function the
property puts under contract (its own and the callee contracts it relies on).
level_for(ctx, prop): apply the verdict table of DESIGN.md section 1 to the
obligations that were not discharged, then say which level this run supports."""
import json
import os

from .. import core

# properties whose deciding part is deductive when every owned obligation discharges
PROOF_LEVEL = {'C13', 'C14'}


def baseline():
    if not os.path.exists(core.BASELINE):
        return {}
    with open(core.BASELINE) as fh:
        return json.load(fh).get('discharged', {})


def owner_of(q, tags, fn_owner):
    """(function, tag) ownership of DESIGN.md section 1: on the modelcheck call graphs the
    `frame` obligations belong to C07 and the `safety` obligations to C19"""
    from ..pyvc import run
    if any(q in run.FUNCTIONS.get(g, []) for g in ('ctl', 'ctls', 'ltl')):
        if 'frame' in tags:
            return 'C07'
        if 'safety' in tags:
            return 'C19'
    return fn_owner


def run_for(ctx, prop):
    from ..pyvc import run
    fns = run.PROPERTY_FUNCTIONS.get(prop)
    if not fns:
        return
    from ..pyvc import audit
    audit.run(ctx, 8000 if ctx.tier == 'quick' else 60000)
    res = run.run_functions(ctx, fns)
    ctx._ded = {'failed': [], 'foreign_failed': [], 'results': res}
    for r in res:
        q = r['function']
        if 'crash' in r:
            raise RuntimeError('pyvc crashed on %s: %s' % (q, r['crash']))
        if 'extraction_failure' in r:
            ctx.undecided.append('extraction=%s: %s (tool limit, not a defect; the bounded stand-in decides)' % (q, r['extraction_failure']))
            ctx.functions.append({'function': q, 'status': 'extraction failure', 'reason': r['extraction_failure']})
            continue
        fn_owner = r.get('owner') or prop
        owner = fn_owner
        ctx.functions.append({'function': q, 'file': r['file'], 'lines': r['lines'], 'source_sha256_16': r['sha256_16'],
                              'obligations': len(r['obligations']), 'owner': owner,
                              'discharged': sum(1 for o in r['obligations'] if o['status'] == 'discharged'),
                              'seconds': round(r['seconds'], 2),
                              'assumed_contracts_used': sorted(r.get('assumed_contracts_used', {}).keys()),
                              'assumed_clauses': r.get('assumed_clauses', []),
                              'vacuity_probes': {p['name'].split(':probe:')[1]: p['result'] for p in r['probes']}})
        for aq, anote in r.get('assumed_contracts_used', {}).items():
            t_ = 'ASSUMED contract of %s (used by the proof of %s, not verified): %s' % (aq, q, anote)
            if not any(x.startswith('ASSUMED contract of %s ' % aq) for x in ctx.trusted):
                ctx.trusted.append(t_)
        for p in r['probes']:
            if p['name'].endswith(':probe:entry') and p['result'] == 'refutable':
                raise RuntimeError('contract of %s has a contradictory precondition (vacuity guard)' % q)
        rets = [p for p in r['probes'] if ':probe:return' in p['name']]
        if rets and all(p['result'] == 'refutable' for p in rets):
            raise RuntimeError('every probed return path of %s has contradictory assumptions (vacuity guard)' % q)
        for o in r['obligations']:
            owner = owner_of(q, o['tags'], fn_owner)
            if owner == prop:
                ctx.obligation(o['name'], o['status'], o['backend'], o['seconds'], owner, o['tags'], o['detail'])
            if o['status'] != 'discharged':
                (ctx._ded['failed'] if owner == prop else ctx._ded['foreign_failed']).append((q, o, owner))
    if not ctx.obligations and any('extraction failure' != f.get('status') for f in ctx.functions):
        pass
    if ctx.tier == 'thorough':
        from ..pyvc import planted
        planted.run_for(ctx, prop)
    from ..pyvc.run import TRUSTED
    for t in TRUSTED.get(prop, []) + TRUSTED['*']:
        if t not in ctx.trusted:
            ctx.trusted.append(t)
    for a in core.PYTHON_SEMANTICS_ASSUMED:
        if a not in ctx.assumptions:
            ctx.assumptions.append(a)


def level_for(ctx, prop):
    ded = getattr(ctx, '_ded', None)
    if ded is None:
        return 'exploration'
    base = baseline()
    bounded_found = [v for v in ctx.violations]
    for q, o, owner in ded['foreign_failed']:
        ctx.assumption_broken.append('callee=%s (%s; reported under %s)' % (o['name'], o['status'], owner))
    for q, o, owner in ded['failed']:
        if bounded_found:
            # the bounded stand-in produced a failing input on the real code: that is the violation;
            # the failed obligation is attached to it
            for v in bounded_found[:1]:
                v.obligation = (v.obligation + '; ' if v.obligation else '') + o['name']
                v.solver_output = (v.solver_output or '') + ' %s: %s' % (o['name'], o['detail'] or o['status'])
            continue
        if o['status'] == 'unknown' and 'killed at the hard wall-clock limit' in (o['detail'] or ''):
            # the solver did not come back and was killed: a tool failure, not a verdict about the code
            ctx.undecided.append('obligation=%s (%s)' % (o['name'], o['detail']))
            continue
        if o['name'] in base:
            ctx.violation(core.Violation(
                prop, 'obligation:' + o['name'].split(':', 1)[1].split(':')[0], 'obligation %s was discharged on the unchanged tree and now fails (%s)'
                % (o['name'], o['detail'] or o['status']), attrs={'obligation': o['name']}, obligation=o['name'],
                solver_output=o['detail'] or o['status'], no_input=True,
                details='no failing input found by the bounded stand-in within its scope; the replay file names the failed obligation'))
        else:
            ctx.undecided.append('obligation=%s (%s; not in the baseline of discharged obligations)' % (o['name'], o['detail'] or o['status']))
    if len(ctx.obligations) == 0:
        return 'exploration'
    # vacuity guard on the number of obligations
    expected = sum(1 for n, meta in base.items() if owner_of(n.split(':')[0], meta.get('tags', []), meta.get('owner')) == prop)
    failed_fns = set(f['function'] for f in ctx.functions if f.get('status') == 'extraction failure')
    if expected and not failed_fns and len(ctx.obligations) < expected * 0.5:
        raise RuntimeError('only %d obligations generated for %s, the baseline has %d (vacuity guard)' % (len(ctx.obligations), prop, expected))
    if prop in PROOF_LEVEL and all(o['status'] == 'discharged' for o in ctx.obligations) and not ctx.undecided:
        return 'proof'
    return 'exploration'
