"""C01 - CTL model checking returns exactly the satisfying states."""
import random

from ..spec import gen
from ..rtc import driver
from . import mc_scope

CMD = './check C01'


def formulas(tier, rng):
    lv = gen.levels(gen.ctl_ops(), 2, cap=600 if tier == 'quick' else 4000, rng=rng)
    base = lv[0] + lv[1]          # all of depth <=1: every A/E pairing over leaves
    deep = lv[2] + gen.nary_variants()
    return base, deep


def run(ctx):
    from . import deductive
    deductive.run_for(ctx, 'C01')
    rng = random.Random(ctx.seed * 65537 + 1)
    base, deep = formulas(ctx.tier, rng)
    thorough = ctx.tier == 'thorough'
    ks = mc_scope.small_kripkes(rng, None if thorough else 250)
    nsmall = 4 + 144

    def pick(i, k):
        if i < nsmall:
            return base + deep
        if thorough:
            return base + rng.sample(deep, 40)
        return base + rng.sample(deep, 120)
    cases = mc_scope.chunked('CTL', ks, pick, {'text': False})
    driver.run_cases(
        ctx, 'ctl-exact', 'vf.rtc.mc_rtc', 'check_mc_case', cases, chunk=4,
        rule='every total Kripke structure with <=2 states over atoms p,q x every CTL state formula of depth <=1 '
             '(all 10 A/E pairings, not/and/or/implies, true/false) + depth-2 formulas (%d, sampled beyond the cap) + ternary and/or; '
             '%s 3-state structures x all depth<=1 + sampled depth-2; reference = vf/spec/sem.py; '
             'non-trivial = reference answer neither empty nor all states; distinct by (K, formula)'
             % (len(deep), 'all 21,952' if thorough else '250 sampled'))
    # seeded random beyond: <=6 states, depth <=4
    rk = []
    for _ in range(1500 if thorough else 150):
        S, R, L = gen.random_kripke_data(rng, 6)
        fs = [gen.random_tree(rng, gen.ctl_ops(), 4) for _ in range(20)]
        rk.append(('CTL', (S, R, {s: sorted(l) for s, l in L.items()}), fs, {'text': True}))
    driver.run_cases(ctx, 'ctl-random', 'vf.rtc.mc_rtc', 'check_mc_case', rk, chunk=4,
                     rule='seeded random structures <=6 states x 20 random CTL formulas of depth <=4, as object and as text')
    return deductive.level_for(ctx, 'C01'), CMD
