"""C06 - answers are independent of presentation order, naming and hash seed."""
import random

from ..spec import gen
from ..rtc import driver
from . import mc_scope

CMD = './check C06'


def run(ctx):
    from . import deductive
    deductive.run_for(ctx, 'C06')
    rng = random.Random(ctx.seed * 37 + 6)
    thorough = ctx.tier == 'thorough'
    ctl = gen.levels(gen.ctl_ops(), 2, cap=500, rng=rng)
    ctl = ctl[0] + ctl[1] + ctl[2]
    pth = gen.levels(gen.path_ops(), 2, cap=300, rng=rng)
    ltl = [('A', g) for g in pth[0] + pth[1] + pth[2] if gen.count_temporal(g) <= 3]
    ctls = gen.ctls_state_formulas(rng, 300, 3, 2)
    cases = []
    nk = 400 if thorough else 48
    for logic, pool, per in (('CTL', ctl, 12), ('LTL', ltl, 4), ('CTLS', ctls, 4)):
        for i in range(nk):
            S, R, L = gen.random_kripke_data(rng, 4)
            cases.append((logic, (S, R, {s: sorted(l) for s, l in L.items()}), rng.sample(pool, per), rng.randrange(10 ** 9)))
    # structures with a component of >= 3 states visited before other DFS roots (SCC corner cases):
    # a 3-cycle plus 1-2 extra states with random edges, everything labelled p with probability 0.8
    eg = [('E', ('G', ('ap', 'p'))), ('A', ('F', ('not', ('ap', 'p')))), ('E', ('G', ('or', ('ap', 'p'), ('ap', 'q')))),
          ('E', ('U', ('ap', 'p'), ('ap', 'q'))), ('A', ('G', ('E', ('F', ('ap', 'q')))))]
    for i in range(300 if thorough else 60):
        n = rng.choice([4, 4, 5])
        R = [(0, 1), (1, 2), (2, 0)]
        for s_ in range(3, n):
            R.append((s_, rng.choice([s_, rng.randrange(n)])))
            for _ in range(rng.randint(1, 2)):
                R.append((rng.randrange(n), s_) if rng.random() < 0.5 else (s_, rng.randrange(n)))
        R = sorted(set(R))
        L = {s_: [a for a in ('p', 'q') if rng.random() < (0.8 if a == 'p' else 0.4)] for s_ in range(n)}
        cases.append(('CTL', (list(range(n)), R, L), eg, rng.randrange(10 ** 9)))
        if i % 3 == 0:
            cases.append(('CTLS', (list(range(n)), R, L), eg[:3], rng.randrange(10 ** 9)))
            cases.append(('LTL', (list(range(n)), R, L), [('A', ('F', ('G', ('ap', 'p')))), ('A', ('G', ('F', ('ap', 'q'))))], rng.randrange(10 ** 9)))
    driver.run_cases(
        ctx, 'renaming-reordering', 'vf.rtc.mc_rtc', 'check_presentation_case', cases, chunk=2,
        rule='%d seeded structures (<=4 states) per logic x formulas (12 CTL / 4 LTL / 4 CTL*) x 8 presentations: states renamed to strings, tuples, '
             'mixed types, permuted; S/R/L collections shuffled and reversed; atoms renamed consistently; an extra unreachable component added '
             '(answers compared on the original states); distinct by (logic, K, formula)' % nk)
    seeds = list(range(1, 33)) if thorough else [1, 2, 3, 4]
    hs = [(ctx.seed * 41 + 6, 30 if thorough else 14, h) for h in seeds]
    driver.run_cases(ctx, 'hash-seeds', 'vf.rtc.mc_rtc', 'check_hashseed_case', hs, chunk=1,
                     rule='a fixed battery of (K with string states, formula) queries for CTL, LTL, CTL* evaluated in %d fresh interpreters, one per '
                          'PYTHONHASHSEED, and compared with this process (PYTHONHASHSEED=0)' % len(seeds))
    ctx.assumptions += ['hash seeds: a finite sample, each in a fresh interpreter; the deductive part (when present) covers every iteration order (E2)']
    return deductive.level_for(ctx, 'C06'), CMD
