"""C06 - answers are independent of presentation order, naming and hash seed."""
import random

from ..spec import gen
from ..rtc import driver
from . import mc_scope

CMD = './check C06'


def run(ctx):
    from . import deductive
    deductive.run_for(ctx, 'C06')
    rng = random.Random(ctx.seed * 37 + 6)
    thorough = ctx.tier == 'thorough'
    ctl = gen.levels(gen.ctl_ops(), 2, cap=500, rng=rng)
    ctl = ctl[0] + ctl[1] + ctl[2]
    pth = gen.levels(gen.path_ops(), 2, cap=300, rng=rng)
    ltl = [('A', g) for g in pth[0] + pth[1] + pth[2] if gen.count_temporal(g) <= 3]
    ctls = gen.ctls_state_formulas(rng, 300, 3, 2)
    cases = []
    nk = 400 if thorough else 48
    for logic, pool, per in (('CTL', ctl, 12), ('LTL', ltl, 4), ('CTLS', ctls, 4)):
        for i in range(nk):
            S, R, L = gen.random_kripke_data(rng, 4)
            cases.append((logic, (S, R, {s: sorted(l) for s, l in L.items()}), rng.sample(pool, per), rng.randrange(10 ** 9)))
    driver.run_cases(
        ctx, 'renaming-reordering', 'vf.rtc.mc_rtc', 'check_presentation_case', cases, chunk=2,
        rule='%d seeded structures (<=4 states) per logic x formulas (12 CTL / 4 LTL / 4 CTL*) x 8 presentations: states renamed to strings, tuples, '
             'mixed types, permuted; S/R/L collections shuffled and reversed; atoms renamed consistently; an extra unreachable component added '
             '(answers compared on the original states); distinct by (logic, K, formula)' % nk)
    seeds = list(range(1, 33)) if thorough else [1, 2, 3, 4]
    hs = [(ctx.seed * 41 + 6, 30 if thorough else 14, h) for h in seeds]
    driver.run_cases(ctx, 'hash-seeds', 'vf.rtc.mc_rtc', 'check_hashseed_case', hs, chunk=1,
                     rule='a fixed battery of (K with string states, formula) queries for CTL, LTL, CTL* evaluated in %d fresh interpreters, one per '
                          'PYTHONHASHSEED, and compared with this process (PYTHONHASHSEED=0)' % len(seeds))
    ctx.assumptions += ['hash seeds: a finite sample, each in a fresh interpreter; the deductive part (when present) covers every iteration order (E2)']
    return deductive.level_for(ctx, 'C06'), CMD
