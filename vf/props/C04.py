"""C04 - the three checkers agree with each other and obey the semantic laws."""
import random

from ..spec import gen
from ..rtc import driver
from . import mc_scope

CMD = './check C04'


def run(ctx):
    from . import deductive
    deductive.run_for(ctx, 'C04')
    rng = random.Random(ctx.seed * 43 + 4)
    thorough = ctx.tier == 'thorough'
    pl = gen.levels(gen.pl_ops(), 1)
    props = pl[0] + pl[1]
    shared = []                       # CTL ∩ LTL: one temporal operator over propositional operands
    for t in gen.UN_TEMP:
        shared += [(t, a) for a in props]
    for t in gen.BIN_TEMP:
        shared += [(t, a, b) for a in rng.sample(props, 12) for b in rng.sample(props, 12)]
    # and/or with three operands (one node, as the parsers build it for `a or b or c`): the checkers treat n-ary
    # connectives in different code (CTL iterates the operands, the LTL tableau looks at the atoms)
    nary = gen.nary_variants()
    nary_shared = [(t, a) for t in gen.UN_TEMP for a in nary]
    shared += nary_shared
    ctl = gen.levels(gen.ctl_ops(), 2, cap=400, rng=rng)
    ctl = ctl[0] + ctl[1] + ctl[2]
    pth = gen.levels(gen.path_ops(), 2, cap=300, rng=rng)
    ltl = [g for g in pth[1] + pth[2] if gen.count_temporal(g) <= 3]
    ks = mc_scope.small_kripkes(rng, 600 if thorough else 60)
    ks += [(S, R, {s: sorted(l) for s, l in L.items()}) for S, R, L in (gen.random_kripke_data(rng, 5) for _ in range(200 if thorough else 20))]
    cases = []
    for i, k in enumerate(ks):
        small = i < 148
        cases.append((k, rng.sample(ctl, 12 if small else 8), rng.sample(shared, 10 if small else 6) + rng.sample(nary_shared, 4 if small else 2),
                      rng.sample(ltl, 5 if small else 3)))
    driver.run_cases(
        ctx, 'agreement-and-laws', 'vf.rtc.mc_rtc', 'check_laws_case', cases, chunk=2,
        rule='every total structure with <=2 states, %s 3-state and seeded random <=5-state structures x sampled formulas: A g over one temporal '
             'operator with propositional operands (incl. and/or nodes with three operands) through CTL, LTL, CTL* (object and text); CTL formulas through CTL and CTL*; LTL formulas through '
             'LTL and CTL*; ONE formula object handed to CTL*, CTL, CTL* (and LTL) in turn; complement/intersection/union/implication laws, the five A/E dualities, and the expansion laws of EU, AU, AG, EG, EF, AF, ER '
             'on pairs (f, g); needs no reference implementation; distinct by (kind, K, formula)' % ('600' if thorough else '60'))
    return deductive.level_for(ctx, 'C04'), CMD
