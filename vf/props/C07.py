"""C07 - model checking is a pure function of its arguments."""
from ..rtc import driver

CMD = './check C07'


def run(ctx):
    from . import deductive
    deductive.run_for(ctx, 'C07')
    thorough = ctx.tier == 'thorough'
    n = 1200 if thorough else 64
    cases = [(ctx.seed * 1000003 + i, 40) for i in range(n)]
    driver.run_cases(
        ctx, 'interleavings', 'vf.rtc.mc_rtc', 'check_purity_case', cases, chunk=2,
        rule='%d seeded histories: a pool of 4 random structures (<=4 states) and 11 formulas (CTL, LTL, CTL*; objects and text; with and without '
             'fairness sets) - every query evaluated once, then 40 randomly interleaved repetitions must return equal results; deep snapshot '
             '(states, transitions, every label set and its identity, S0), formula tree, F argument and module/class level state compared '
             'after every call; finally the caller toggles a label through labels(s) and adds an edge on every structure, and every query without '
             'fairness must answer like on a freshly built equal structure; distinct by (seed, query)' % n)
    return deductive.level_for(ctx, 'C07'), CMD
