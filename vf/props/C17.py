"""C17 - OBDD operations compute the right function, reduced and ordered."""
import itertools
import random

from ..rtc import driver
from . import bdd_scope

CMD = './check C17'


def run(ctx):
    from . import deductive
    deductive.run_for(ctx, 'C17')
    rng = random.Random(ctx.seed * 23 + 17)
    thorough = ctx.tier == 'thorough'
    cases = []
    # <=2 variables: all pairs of depth<=1 expressions, all orderings
    for n in (1, 2):
        vs = bdd_scope.VARS[:n]
        lv = bdd_scope.exprs(1, vs)
        es = lv[0] + lv[1]
        for order in itertools.permutations(vs):
            for e1 in es:
                for e2 in es:
                    cases.append((list(order), e1, e2))
    # 3-4 variables: sampled pairs of depth<=3 expressions over all 24 orderings
    for n in (3, 4):
        vs = bdd_scope.VARS[:n]
        lv = bdd_scope.exprs(3, vs, rng, cap=3000)
        es = lv[1] + lv[2] + lv[3]
        orders = list(itertools.permutations(vs))
        for _ in range((40000 if thorough else 2500) // (1 if n == 4 else 2)):
            cases.append((list(rng.choice(orders)), rng.choice(es), rng.choice(es)))
    driver.run_cases(
        ctx, 'obdd-ops', 'vf.rtc.bdd_rtc', 'check_ops_case', bdd_scope.rename_cases(cases),
        rule='expression pairs: all pairs of depth<=1 expressions over <=2 variables x all orderings; sampled pairs of depth<=3 expressions over 3-4 '
             'variables x all 6/24 orderings; for each pair &,|,^,~ and restrict(v,b) for every v and b in {0,1,False,True}; truth tables on all '
             'assignments, node walk for ordering/reducedness, variables() against the semantic support; every second case over variable names with several '
             'characters (x1,x10,x9,x2 / req,ack,busy,done / not_a,and1,True_x,or_ / B,a_,_c,dd); distinct by literal')
    g = []
    for n in (1, 2, 3, 4):
        vs = bdd_scope.VARS[:n]
        lv = bdd_scope.exprs(2, vs, rng, cap=400)
        for e in rng.sample(lv[1] + lv[2], 60):
            g.append((list(rng.sample(vs, n)), e))
    driver.run_cases(ctx, 'ordering-guards', 'vf.rtc.bdd_rtc', 'check_ordering_guard_case', bdd_scope.rename_cases(g),
                     rule='different orderings / missing variable / non-OBDD operand raise RuntimeError/TypeError')
    return deductive.level_for(ctx, 'C17'), CMD
