"""C18 - expression and lambda notation build the same OBDD; printing round-trips."""
import itertools
import random

from ..rtc import driver, bdd_rtc
from . import bdd_scope

CMD = './check C18'


def run(ctx):
    from . import deductive
    deductive.run_for(ctx, 'C18')
    rng = random.Random(ctx.seed * 29 + 18)
    thorough = ctx.tier == 'thorough'
    cases = []
    for n in (1, 2, 3, 4):
        vs = bdd_scope.VARS[:n]
        lv = bdd_scope.exprs(4 if n <= 2 else 3, vs, rng, cap=2000 if not thorough else 20000)
        es = [e for l in lv for e in l]
        orders = list(itertools.permutations(vs))
        if n <= 2:
            pick = lv[0] + lv[1] + lv[2] + rng.sample(lv[3] + lv[4], 600)
            for e in pick:
                for o in orders:
                    cases.append((list(o), e))
        else:
            for _ in range(3000 if not thorough else 40000):
                cases.append((list(rng.choice(orders)), rng.choice(es)))
    # a few deeper ones (depth 4 over 4 variables)
    for _ in range(500 if not thorough else 10000):
        cases.append((rng.sample(bdd_scope.VARS, 4), bdd_rtc.rand_expr(rng, bdd_scope.VARS, 4)))
    # unbracketed chains of 3-6 operands (one n-ary node for and/or)
    for n in (2, 3, 4):
        for e in bdd_rtc.chains(bdd_scope.VARS[:n], rng, 150 if not thorough else 3000):
            cases.append((rng.sample(bdd_scope.VARS[:n], n), e))
    driver.run_cases(
        ctx, 'notations', 'vf.rtc.bdd_rtc', 'check_notation_case', bdd_scope.rename_cases(cases),
        rule='Boolean expressions up to depth 4 over <=4 variables (exhaustive to depth 2 over <=2 variables, sampled beyond) x argument orders: '
             'chains of 3-6 operands; each written fully bracketed and with the fewest brackets Python needs (a and b and c), in both notations; half of the cases over multi-character variable names; '
             'lambda form == expression form (and identical root), and/or/not == &,|,~, OBDD(str(o.root), o.ordering) == o, OBDD(str(o)) == o, '
             'a missing variable raises RuntimeError; distinct by literal')
    driver.run_cases(ctx, 'non-boolean-syntax', 'vf.rtc.bdd_rtc', 'check_syntax_case', list(bdd_rtc.BAD_SYNTAX),
                     rule='non-Boolean Python syntax raises SyntaxError')
    ctx.assumptions += ['ast.parse (CPython) trusted; print->parse is bounded only (it involves Python expression grammar)']
    return deductive.level_for(ctx, 'C18'), CMD
