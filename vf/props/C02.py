"""C02 - LTL model checking returns exactly the states whose every path
satisfies g.  Deciding part is bounded (tableau internals are out of deductive
reach, DESIGN.md 3/C02); the wrapper LTL.modelcheck is under contract."""
import random

from ..spec import gen
from ..rtc import driver
from . import mc_scope

CMD = './check C02'


def path_formulas(tier, rng):
    lv = gen.levels(gen.path_ops(), 2, cap=300 if tier == 'quick' else 1500, rng=rng)
    base = lv[0] + lv[1]
    deep = [g for g in lv[2] + gen.nary_variants() if gen.count_temporal(g) <= 3]
    deep += [g for g in (gen.random_tree(rng, gen.path_ops(), 3) for _ in range(200 if tier == 'quick' else 1500))
             if gen.count_temporal(g) <= 3]
    return base, deep


def run(ctx):
    from . import deductive
    deductive.run_for(ctx, 'C02')
    rng = random.Random(ctx.seed * 92821 + 2)
    base, deep = path_formulas(ctx.tier, rng)
    thorough = ctx.tier == 'thorough'
    ks = mc_scope.small_kripkes(rng, 1500 if thorough else 120)
    nsmall = 4 + 144

    def pick(i, k):
        if i < 4:
            gs = base + deep
        elif i < nsmall:
            gs = base + rng.sample(deep, 150 if thorough else 25)
        else:
            gs = rng.sample(base, 30) + rng.sample(deep, 40 if thorough else 20)
        return [('A', g) for g in gs]
    cases = mc_scope.chunked('LTL', ks, pick, {'certify': True})
    driver.run_cases(
        ctx, 'ltl-exact', 'vf.rtc.mc_rtc', 'check_mc_case', cases, chunk=2,
        rule='every total Kripke structure with <=2 states over p,q and %s 3-state structures x A g for path formulas g of depth <=1 (all) '
             'and depth 2-3 with <=3 temporal operators (sampled per structure); every excluded verdict of the reference is certified by a '
             'concrete lasso evaluated with the independent position-wise evaluator; non-trivial = answer neither empty nor all; '
             'distinct by (K, formula)' % ('1500 sampled' if thorough else '120 sampled'))
    # every total relation on 3 states x a few labellings x the core liveness/safety shapes, under two
    # atom namings (tableau iteration order depends on the hash of the atom names)
    core = [('F', ('G', ('ap', 'p'))), ('G', ('F', ('ap', 'p'))), ('U', ('ap', 'p'), ('ap', 'q')), ('G', ('ap', 'p')),
            ('F', ('ap', 'q')), ('X', ('ap', 'p')), ('R', ('ap', 'p'), ('ap', 'q')),
            ('or', ('G', ('ap', 'p')), ('F', ('ap', 'q'))), ('imply', ('G', ('F', ('ap', 'p'))), ('G', ('F', ('ap', 'q'))))]
    labs3 = [{0: ['p'], 1: ['p'], 2: []}, {0: ['p'], 1: ['q'], 2: ['p', 'q']}, {0: [], 1: ['p'], 2: ['q']}, {0: ['p', 'q'], 1: [], 2: ['p']}]
    rel3 = list(gen.total_relations(3))
    namings = [{'p': 'p', 'q': 'q'}, {'p': 'zeta_%d' % (ctx.seed % 7), 'q': 'Alpha9'}, {'p': 'p17', 'q': 'p3'}]
    if not thorough:
        rel3 = rng.sample(rel3, 110)

    def ren(t, m):
        if t[0] == 'ap':
            return ('ap', m[t[1]])
        return (t[0],) + tuple(ren(c, m) for c in t[1:])
    scc_cases = []
    for R in rel3:
        for L0 in (labs3 if thorough else rng.sample(labs3, 2)):
            m = rng.choice(namings)
            scc_cases.append(('LTL', ([0, 1, 2], R, {s: [m[a] for a in l] for s, l in L0.items()}),
                              [('A', ren(g, m)) for g in core], {}))
    driver.run_cases(ctx, 'ltl-scc-shapes', 'vf.rtc.mc_rtc', 'check_mc_case', scc_cases, chunk=4,
                     rule='%s total relations on 3 states x labellings x 9 core liveness/safety path formulas, atoms renamed '
                          '(tableau/SCC iteration order depends on hashing of names)' % ('all 343' if thorough else '110 sampled'))
    rk = []
    for _ in range(600 if thorough else 60):
        S, R, L = gen.random_kripke_data(rng, 5)
        fs = []
        while len(fs) < 8:
            g = gen.random_tree(rng, gen.path_ops(), 3)
            if gen.count_temporal(g) <= 3:
                fs.append(('A', g))
        rk.append(('LTL', (S, R, {s: sorted(l) for s, l in L.items()}), fs, {'text': True}))
    driver.run_cases(ctx, 'ltl-random', 'vf.rtc.mc_rtc', 'check_mc_case', rk, chunk=2,
                     rule='seeded random structures <=5 states x 8 random LTL formulas (<=3 temporal operators), as object and as text')
    ctx.assumptions += ['tableau internals (_build_atoms, _Tableu, _is_non_trivial_self_fulfilling) and the tableau theorem TB9 are NOT proved; bounded only']
    return 'exploration', CMD
