"""C05 - rewriting to the restricted syntax and LNot preserve meaning."""
import random

from ..spec import gen, trees
from ..rtc import driver

CMD = './check C05'


def stack_nots(t, k, logic=None):
    if logic == 'LTL' and t[0] == 'A' and k:
        return ('A', stack_nots(t[1], k))
    for _ in range(k):
        t = ('not', t)
    return t


def formulas(tier, rng):
    cap = 1500 if tier == 'quick' else 4000
    out = {}
    ctl = gen.levels(gen.ctl_ops(), 2, cap=cap, rng=rng)
    out['CTL'] = ctl[0] + ctl[1] + ctl[2] + gen.nary_variants()
    pth = gen.levels(gen.path_ops(), 2, cap=cap, rng=rng)
    flat = pth[0] + pth[1] + pth[2] + gen.nary_variants()
    out['LTL'] = flat + [('A', g) for g in rng.sample(flat, 300)]
    st = gen.ctls_state_formulas(rng, 600 if tier == 'quick' else 5000, 3, 2)
    out['CTLS'] = flat + st + [('X', s) for s in st[:100]]
    if tier == 'thorough':
        out['CTL'] += [gen.random_tree(rng, gen.ctl_ops(), 3) for _ in range(1200)]
        out['LTL'] += [gen.random_tree(rng, gen.path_ops(), 3) for _ in range(1200)]
    for k in out:
        base = rng.sample(out[k], 60)
        out[k] += [stack_nots(t, n, k) for t in base for n in (2, 3, 4)]
    # and/or with ONE operand and with four: the constructors accept any number (the arity is never checked, KF-C08-1),
    # so these are objects a caller can have; where a constructor refuses one, the case is skipped
    for k in out:
        small = [t for t in out[k] if trees.size(t) <= 3 and t[0] != 'A'][:40]
        extra = []
        for t in small:
            for op in ('and', 'or'):
                extra.append((op, t))
                extra.append((op, t, small[0], t, small[-1]))
        if k == 'LTL':
            extra += [('A', e) for e in extra[:40]]
        elif k != 'CTL':
            extra += [('E', ('G', e)) for e in extra[:40]]
        else:
            extra += [('E', ('G', e)) for e in extra[:40] if trees.wf_CTL_state(e)]
        out[k] += extra
    return out


def run(ctx):
    from . import deductive
    deductive.run_for(ctx, 'C05')
    rng = random.Random(ctx.seed * 7 + 5)
    fs = formulas(ctx.tier, rng)
    cases = []
    for logic, ts in fs.items():
        for i in range(0, len(ts), 25):
            cases.append((logic, ts[i:i + 25]))
    driver.run_cases(
        ctx, 'rewrite', 'vf.rtc.lang_rtc', 'check_rewrite_case', cases, chunk=1,
        rule='formulas of CTL, LTL, CTL* to depth 2 (exhaustive up to the cap %s, sampled beyond), and/or with one, three and four operands, stacked negations; '
             'equivalence decided by the reference semantics: quantifier-free path formulas on the universal 4-state structure over p,q '
             '(decides LTL equivalence over 2 atoms exactly), formulas with quantifiers on every structure with <=2 states + 40 sampled '
             '3-state structures; alphabet membership syntactic; LNot checked on the same formulas; distinct by (logic, formula)'
             % ('1500/level' if ctx.tier == 'quick' else '4000/level'))
    return deductive.level_for(ctx, 'C05'), CMD
