"""Small-scope enumerators and seeded random generators (inputs of the bounded
stand-in and of counter-model search)."""
import itertools
import random


# ----------------------------------------------------------------------------
# digraphs

def all_digraphs(n):
    """every edge set over nodes 0..n-1 as (nodes, edges)"""
    nodes = list(range(n))
    pairs = [(a, b) for a in nodes for b in nodes]
    for mask in range(1 << len(pairs)):
        yield nodes, [pairs[i] for i in range(len(pairs)) if mask >> i & 1]


def random_digraph(rng, max_n=12, p=None):
    n = rng.randint(1, max_n)
    nodes = list(range(n))
    p = rng.choice([0.05, 0.1, 0.2, 0.4]) if p is None else p
    edges = [(a, b) for a in nodes for b in nodes if rng.random() < p]
    rng.shuffle(nodes)
    rng.shuffle(edges)
    return nodes, edges


def all_subsets(xs):
    xs = list(xs)
    for r in range(len(xs) + 1):
        for c in itertools.combinations(xs, r):
            yield set(c)


# ----------------------------------------------------------------------------
# Kripke structures as plain data (states, edges, labels)

ATOMS2 = ('p', 'q')


def total_relations(n):
    """every total relation on 0..n-1 as an edge list"""
    rows = []
    for s in range(n):
        opts = []
        for mask in range(1, 1 << n):
            opts.append([(s, d) for d in range(n) if mask >> d & 1])
        rows.append(opts)
    for combo in itertools.product(*rows):
        yield [e for row in combo for e in row]


def labellings(n, atoms=ATOMS2):
    sets = [frozenset(c) for r in range(len(atoms) + 1)
            for c in itertools.combinations(atoms, r)]
    for combo in itertools.product(sets, repeat=n):
        yield {s: set(combo[s]) for s in range(n)}


def all_kripke_data(n, atoms=ATOMS2):
    for R in total_relations(n):
        for L in labellings(n, atoms):
            yield (list(range(n)), R, L)


def count_kripke(n, atoms=ATOMS2):
    return ((1 << n) - 1) ** n * (1 << len(atoms)) ** n


def random_kripke_data(rng, max_n=6, atoms=ATOMS2):
    n = rng.randint(1, max_n)
    R = []
    for s in range(n):
        k = rng.randint(1, min(n, 3))
        for d in rng.sample(range(n), k):
            R.append((s, d))
    L = {s: set(a for a in atoms if rng.random() < 0.5) for s in range(n)}
    return (list(range(n)), R, L)


def _shape_key(data):
    import zlib
    S, R, L = data
    key = repr((sorted(map(repr, S)), sorted(map(repr, R)),
                sorted((repr(k), sorted(map(repr, v))) for k, v in L.items()) if isinstance(L, dict) else repr(L)))
    return zlib.crc32(key.encode())


def initial_states(data):
    """The S0 argument the checks build the structure `data` with: a fixed function of the structure (so that a
    replay rebuilds the same object), cycling through no S0, the first state, the last state and every state.  No
    property lets an answer depend on the initial states; a quarter of the structures is built without them."""
    S = list(data[0])
    mode = _shape_key(data) % 4
    if mode == 0 or not S:
        return None
    return [S[0]] if mode == 1 else [S[-1]] if mode == 2 else list(S)


def constructor_args(data):
    """(S, S0, R, L) as actually passed to Kripke: besides the initial states, the CONTAINERS vary with the structure
    (label values as set / list / tuple / frozenset / list with a repeated atom; transitions as list / reversed list /
    set / tuple) - all legal presentations of the same structure, fixed per structure for replay."""
    S, R, L = data
    k = _shape_key(data)
    S0 = initial_states(data)
    lm, rm = (k >> 2) % 5, (k >> 5) % 4
    if isinstance(L, dict):
        conv = (set, list, tuple, frozenset, lambda v: list(v) + list(v)[:1])[lm]
        L = dict((s, conv(sorted(v, key=repr))) for s, v in L.items())
    R = list(R)
    try:
        R = (R, R[::-1], set(R), tuple(R))[rm]
    except TypeError:        # (unhashable states: keep the list)
        pass
    return S, S0, R, L


def mk_kripke(data):
    from pyModelChecking import Kripke
    S, S0, R, L = constructor_args(data)
    if S0 is None:
        return Kripke(S=S, R=R, L=L)
    return Kripke(S=S, S0=S0, R=R, L=L)


def ktext(data):
    S, S0, R, L = constructor_args(data)
    return 'Kripke(S=%r,%sR=%r,L=%r)' % (S, '' if S0 is None else 'S0=%r,' % (S0,), R, L)


def fairness_lists(states, max_len=2):
    """every list of <= max_len subsets of states"""
    subs = [frozenset(x) for x in all_subsets(states)]
    yield []
    for P in subs:
        yield [set(P)]
    if max_len >= 2:
        for P, Q in itertools.combinations_with_replacement(subs, 2):
            yield [set(P), set(Q)]


# ----------------------------------------------------------------------------
# formula trees (tuples)

LEAVES = (('ap', 'p'), ('ap', 'q'), ('true',), ('false',))
UN_BOOL = ('not',)
BIN_BOOL = ('and', 'or', 'imply')
UN_TEMP = ('X', 'F', 'G')
BIN_TEMP = ('U', 'R')


def _apply_all(un_ops, bin_ops, pool_a, pool_b=None, nary=False):
    pool_b = pool_a if pool_b is None else pool_b
    for op in un_ops:
        for a in pool_a:
            yield op(a)
    for op in bin_ops:
        for a in pool_a:
            for b in pool_b:
                yield op(a, b)


def ctl_ops():
    un = [lambda a: ('not', a)]
    bn = [lambda a, b, t=t: (t, a, b) for t in BIN_BOOL]
    for q in ('A', 'E'):
        for t in UN_TEMP:
            un.append(lambda a, q=q, t=t: (q, (t, a)))
        for t in BIN_TEMP:
            bn.append(lambda a, b, q=q, t=t: (q, (t, a, b)))
    return un, bn


def path_ops():
    un = [lambda a: ('not', a)] + [lambda a, t=t: (t, a) for t in UN_TEMP]
    bn = [lambda a, b, t=t: (t, a, b) for t in BIN_BOOL + BIN_TEMP]
    return un, bn


def pl_ops():
    return [lambda a: ('not', a)], [lambda a, b, t=t: (t, a, b)
                                    for t in BIN_BOOL]


def levels(ops, depth, leaves=LEAVES, cap=None, rng=None):
    """[T0, T1, ...]: T0 = leaves, T(k+1) = every operator applied to operands
    of depth <= k with at least one of depth exactly k.  With cap, levels beyond
    the cap are sampled (seeded) instead of enumerated."""
    un, bn = ops
    out = [list(leaves)]
    for k in range(depth):
        lower = [t for lvl in out[:-1] for t in lvl]
        top = out[-1]
        new = []
        for op in un:
            for a in top:
                new.append(op(a))
        pairs_count = len(bn) * (len(top) * (len(top) + 2 * len(lower)))
        if cap is not None and len(new) + pairs_count > cap:
            rng = rng or random.Random(0)
            if len(new) > cap // 2:
                new = rng.sample(new, cap // 2)
            allp = lower + top
            while len(new) < cap:
                op = rng.choice(bn)
                a = rng.choice(top)
                b = rng.choice(allp)
                new.append(op(a, b) if rng.random() < 0.5 else op(b, a))
        else:
            for op in bn:
                for a in top:
                    for b in top:
                        new.append(op(a, b))
                for a in top:
                    for b in lower:
                        new.append(op(a, b))
                        new.append(op(b, a))
        out.append(new)
    return out


def nary_variants(leaves=LEAVES):
    """a few n-ary (arity 3) and/or trees, which the binary enumeration above
    does not produce"""
    out = []
    for tag in ('and', 'or'):
        for a, b, c in itertools.product(leaves[:3], repeat=3):
            out.append((tag, a, b, c))
    return out


def random_tree(rng, ops, depth, leaves=LEAVES):
    un, bn = ops
    if depth == 0 or rng.random() < 0.15:
        return rng.choice(leaves)
    if rng.random() < 0.45:
        return rng.choice(un)(random_tree(rng, ops, depth - 1, leaves))
    return rng.choice(bn)(random_tree(rng, ops, depth - 1, leaves),
                          random_tree(rng, ops, depth - 1, leaves))


def ctls_state_ops():
    """operators producing CTL* *state* formulas from (state formulas) with
    arbitrary path formulas under the quantifiers are generated by
    ctls_state_formulas below"""
    raise NotImplementedError


def ctls_state_formulas(rng, n, max_temporal=3, nesting=2, leaves=LEAVES):
    """n seeded random CTL* state formulas: A/E over path formulas with at most
    max_temporal temporal operators per quantifier and quantifier nesting <=
    nesting."""
    def path(depth, budget, nest):
        # returns (tree, temporal operators used)
        r = rng.random()
        if depth == 0 or r < 0.2:
            if nest > 0 and rng.random() < 0.3:
                return state(nest), 0
            return rng.choice(leaves), 0
        if r < 0.45 and budget > 0:
            t = rng.choice(UN_TEMP)
            a, k = path(depth - 1, budget - 1, nest)
            return (t, a), k + 1
        if r < 0.6 and budget > 0:
            t = rng.choice(BIN_TEMP)
            a, k1 = path(depth - 1, budget - 1, nest)
            b, k2 = path(depth - 1, budget - 1 - k1, nest)
            return (t, a, b), k1 + k2 + 1
        if r < 0.75:
            a, k = path(depth - 1, budget, nest)
            return ('not', a), k
        t = rng.choice(BIN_BOOL)
        a, k1 = path(depth - 1, budget, nest)
        b, k2 = path(depth - 1, budget - k1, nest)
        return (t, a, b), k1 + k2

    def state(nest):
        r = rng.random()
        if nest == 0 or r < 0.1:
            return rng.choice(leaves)
        if r < 0.75:
            q = rng.choice(('A', 'E'))
            g, _ = path(3, max_temporal, nest - 1)
            return (q, g)
        if r < 0.85:
            return ('not', state(nest))
        return (rng.choice(BIN_BOOL), state(nest), state(nest - 1))

    out = []
    while len(out) < n:
        out.append(state(nesting))
    return out


def count_temporal(t):
    if t[0] in ('ap', 'true', 'false', 'set'):
        return 0
    return (1 if t[0] in UN_TEMP + BIN_TEMP else 0) + \
        sum(count_temporal(c) for c in t[1:])
