"""Independent parser for the documented concrete syntax of PL, CTL*, CTL, LTL.

A fixed transcription of the grammars the user manual publishes
(doc/source/using_logics.rst prints PL's grammar and declares the Parser.grammar
attribute of each logic "a complete description"; the abstract syntax is
doc/source/logics.rst).  It is NEVER read from /repo at run time, so a changed
grammar string in /repo is compared with the documentation, not with itself.

Memoised top-down parser over a token list returning every parse, so that an
ambiguity would be visible; results are formula tuples (vf/spec/trees.py)."""
import re

TOKEN_RE = re.compile(r'\s*(?:(-->)|([()~|&])|([a-zA-Z_][a-zA-Z_0-9]*)|("(?:[^"\\\n]|\\.)*"))')

KEYWORDS = {
    'PL': {'true', 'false', 'not', 'or', 'and'},
    'CTLS': {'true', 'false', 'not', 'or', 'and', 'A', 'E', 'X', 'F', 'G', 'U', 'R'},
    'CTL': {'true', 'false', 'not', 'or', 'and', 'A', 'E', 'X', 'F', 'G', 'U', 'R'},
    'LTL': {'true', 'false', 'not', 'or', 'and', 'A', 'X', 'F', 'G', 'U', 'R'},
}
SYN = {'~': 'not', '|': 'or', '&': 'and'}


class LexError(Exception):
    def __init__(self, pos):
        self.pos = pos


def tokenize(logic, text):
    """[(kind, value)] with kind in {'kw','atom','(' , ')'}; raises LexError"""
    out = []
    i = 0
    n = len(text)
    while True:
        m = re.compile(r'\s*').match(text, i)
        i = m.end()
        if i >= n:
            return out
        m = TOKEN_RE.match(text, i)
        if not m or m.end() == i:
            raise LexError(i)
        arrow, punct, word, quoted = m.groups()
        if arrow:
            out.append(('kw', '-->'))
        elif punct:
            out.append(('kw', SYN[punct]) if punct in SYN else (punct, punct))
        elif word:
            # a keyword also matches the documented a_prop regex: kind 'kwword'
            out.append(('kwword', word) if word in KEYWORDS[logic] else ('atom', word))
        else:
            out.append(('atom', quoted[1:-1]))
        i = m.end()


# grammar: nonterminal -> list of alternatives; an alternative is a list of
# items; an item is ('t', kind, value) terminal, ('n', name) nonterminal,
# ('plus', kw, name) = (kw name)+ ; each alternative has a builder.

def T(v):
    return ('t', v)


def N(n):
    return ('n', n)


def _nary(tag):
    return lambda xs: (tag,) + tuple(xs)


G_PL = {
    's': [([T('true')], lambda x: ('true',)), ([T('false')], lambda x: ('false',)),
          ([('atom',)], lambda x: ('ap', x[0])),
          ([T('('), N('s'), T(')')], lambda x: x[0])],
    'u': [([T('not'), N('u')], lambda x: ('not', x[0])),
          ([T('('), N('b'), T(')')], lambda x: x[0]),
          ([N('s')], lambda x: x[0])],
    'b': [([N('u')], lambda x: x[0]),
          ([N('u'), ('plus', 'or', 'u')], _nary('or')),
          ([N('u'), ('plus', 'and', 'u')], _nary('and')),
          ([N('u'), T('-->'), N('u')], lambda x: ('imply', x[0], x[1]))],
    'formula': [([N('b')], lambda x: x[0])],
}

G_CTLS = {
    's': [([T('true')], lambda x: ('true',)), ([T('false')], lambda x: ('false',)),
          ([('atom',)], lambda x: ('ap', x[0])),
          ([T('A'), N('u')], lambda x: ('A', x[0])),
          ([T('E'), N('u')], lambda x: ('E', x[0])),
          ([T('('), N('s'), T(')')], lambda x: x[0])],
    'u': [([T('X'), N('u')], lambda x: ('X', x[0])),
          ([T('F'), N('u')], lambda x: ('F', x[0])),
          ([T('G'), N('u')], lambda x: ('G', x[0])),
          ([T('not'), N('u')], lambda x: ('not', x[0])),
          ([T('('), N('p'), T(')')], lambda x: x[0]),
          ([N('s')], lambda x: x[0])],
    'p': [([N('u')], lambda x: x[0]),
          ([N('u'), ('plus', 'or', 'u')], _nary('or')),
          ([N('u'), ('plus', 'and', 'u')], _nary('and')),
          ([N('u'), T('-->'), N('u')], lambda x: ('imply', x[0], x[1])),
          ([N('u'), T('U'), N('u')], lambda x: ('U', x[0], x[1])),
          ([N('u'), T('R'), N('u')], lambda x: ('R', x[0], x[1]))],
    'formula': [([N('p')], lambda x: x[0])],
}

G_CTL = {
    's': [([T('true')], lambda x: ('true',)), ([T('false')], lambda x: ('false',)),
          ([('atom',)], lambda x: ('ap', x[0])),
          ([T('A'), N('p')], lambda x: ('A', x[0])),
          ([T('E'), N('p')], lambda x: ('E', x[0])),
          ([T('not'), N('s')], lambda x: ('not', x[0])),
          ([T('('), N('u'), T(')')], lambda x: x[0])],
    'u': [([N('s')], lambda x: x[0]),
          ([N('s'), ('plus', 'or', 's')], _nary('or')),
          ([N('s'), ('plus', 'and', 's')], _nary('and')),
          ([N('s'), T('-->'), N('s')], lambda x: ('imply', x[0], x[1]))],
    'p': [([T('X'), N('s')], lambda x: ('X', x[0])),
          ([T('F'), N('s')], lambda x: ('F', x[0])),
          ([T('G'), N('s')], lambda x: ('G', x[0])),
          ([N('s'), T('U'), N('s')], lambda x: ('U', x[0], x[1])),
          ([N('s'), T('R'), N('s')], lambda x: ('R', x[0], x[1])),
          ([T('('), N('p'), T(')')], lambda x: x[0])],
    'formula': [([N('p')], lambda x: x[0]), ([N('u')], lambda x: x[0])],
}

G_LTL = {
    'formula': [([N('s')], lambda x: x[0]), ([N('p')], lambda x: x[0])],
    's': [([T('A'), N('u')], lambda x: ('A', x[0]))],
    'p': [([N('u'), ('plus', 'or', 'u')], _nary('or')),
          ([N('u'), ('plus', 'and', 'u')], _nary('and')),
          ([N('u'), T('-->'), N('u')], lambda x: ('imply', x[0], x[1])),
          ([N('u'), T('U'), N('u')], lambda x: ('U', x[0], x[1])),
          ([N('u'), T('R'), N('u')], lambda x: ('R', x[0], x[1])),
          ([N('u')], lambda x: x[0])],
    'u': [([T('true')], lambda x: ('true',)), ([T('false')], lambda x: ('false',)),
          ([('atom',)], lambda x: ('ap', x[0])),
          ([T('('), N('p'), T(')')], lambda x: x[0]),
          ([T('not'), N('u')], lambda x: ('not', x[0])),
          ([T('X'), N('u')], lambda x: ('X', x[0])),
          ([T('F'), N('u')], lambda x: ('F', x[0])),
          ([T('G'), N('u')], lambda x: ('G', x[0]))],
}

GRAMMARS = {'PL': G_PL, 'CTLS': G_CTLS, 'CTL': G_CTL, 'LTL': G_LTL}


def _parse(G, toks, nt, pos, memo, lax=True):
    key = (nt, pos)
    if key in memo:
        return memo[key]
    memo[key] = set()          # cycle guard (the grammars are not left recursive)
    results = set()
    for items, build in G[nt]:
        partial = [((), pos)]
        for it in items:
            nxt = []
            for vals, p in partial:
                if it[0] == 't':
                    if p < len(toks) and toks[p][1] == it[1] and toks[p][0] != 'atom':
                        nxt.append((vals, p + 1))
                elif it[0] == 'atom':
                    if p < len(toks) and (toks[p][0] == 'atom' or (lax and toks[p][0] == 'kwword')):
                        nxt.append((vals + (toks[p][1],), p + 1))
                elif it[0] == 'n':
                    for tr, q in _parse(G, toks, it[1], p, memo, lax):
                        nxt.append((vals + (tr,), q))
                elif it[0] == 'plus':
                    _, kw, name = it
                    frontier = [(vals, p)]
                    while frontier:
                        new = []
                        for v2, p2 in frontier:
                            if p2 < len(toks) and toks[p2][1] == kw and toks[p2][0] in ('kw', 'kwword'):
                                for tr, q in _parse(G, toks, name, p2 + 1, memo, lax):
                                    new.append((v2 + (tr,), q))
                        nxt.extend(new)
                        frontier = new
            partial = nxt
            if not partial:
                break
        for vals, p in partial:
            results.add((build(list(vals)), p))
    memo[key] = results
    return results


def parse(logic, text, lax=True):
    """set of trees for the whole text ({} = not in the documented language);
    raises LexError for characters outside every token.  lax: a keyword may be
    read as an atomic proposition, as the documented a_prop regex allows (the
    grammar read as a context-free grammar over characters); strict: never."""
    toks = tokenize(logic, text)
    res = _parse(GRAMMARS[logic], toks, 'formula', 0, {}, lax)
    return set(tr for tr, p in res if p == len(toks))


RESERVED = {'true', 'false', 'not', 'or', 'and', 'A', 'E', 'X', 'F', 'G', 'U', 'R'}
