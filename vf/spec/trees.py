"""Formula trees as plain tuples, conversion from/to the package's objects, and
the documented grammars (wf_*) written from doc/source/logics.rst -- by operator
name and position, never by defining module.

tuple forms: ('true',) ('false',) ('ap', name) ('not', f) ('or', f1, f2, ...)
('and', ...) ('imply', f, g) ('X', f) ('F', f) ('G', f) ('U', f, g) ('R', f, g)
('A', f) ('E', f).  Ill-formed objects are representable too: arity is whatever
the object has, an unknown class gives ('?ClassName', ...)."""

NAME2TAG = {'Not': 'not', 'Or': 'or', 'And': 'and', 'Imply': 'imply',
            'X': 'X', 'F': 'F', 'G': 'G', 'U': 'U', 'R': 'R', 'A': 'A',
            'E': 'E'}
TAG2NAME = {v: k for k, v in NAME2TAG.items()}


def tree(f):
    """Structural reading of a package formula object (class names, atom names,
    child order); never uses ==, str or hash of the object."""
    import pyModelChecking.language as BL
    cname = f.__class__.__name__
    if isinstance(f, BL.Bool) or cname == 'Bool':
        return ('true',) if f._value else ('false',)
    if cname == 'AtomicProposition':
        return ('ap', f.name)
    kids = tuple(tree(c) for c in f._subformula)
    return (NAME2TAG.get(cname, '?' + cname),) + kids


def lang_of(f):
    return f.__class__.__module__.split('.')[1] if \
        f.__class__.__module__.startswith('pyModelChecking.') and \
        f.__class__.__module__.count('.') >= 2 else f.__class__.__module__


def all_nodes(f):
    """every formula object of the tree rooted at f (preorder)"""
    out = [f]
    for c in getattr(f, '_subformula', []) or []:
        out.extend(all_nodes(c))
    return out


def langs_in(f):
    return set(lang_of(n) for n in all_nodes(f))


def build(Lang, t):
    """Build the package object for tuple t through Lang's own constructors."""
    tag = t[0]
    if tag == 'true':
        return Lang.Bool(True)
    if tag == 'false':
        return Lang.Bool(False)
    if tag == 'ap':
        return Lang.AtomicProposition(t[1])
    return getattr(Lang, TAG2NAME[tag])(*[build(Lang, c) for c in t[1:]])


def to_text(t, ctl=False):
    """Concrete text in the documented notation (independent printer, used to
    feed parsers; fully parenthesised binary/n-ary operators)."""
    tag = t[0]
    if tag in ('true', 'false'):
        return tag
    if tag == 'ap':
        return t[1]
    if tag == 'not':
        return 'not ' + to_text(t[1], ctl)
    if tag in ('or', 'and'):
        return '(' + (' %s ' % tag).join(to_text(c, ctl) for c in t[1:]) + ')'
    if tag == 'imply':
        return '(%s --> %s)' % (to_text(t[1], ctl), to_text(t[2], ctl))
    if tag in ('X', 'F', 'G'):
        return '%s %s' % (tag, to_text(t[1], ctl))
    if tag in ('U', 'R'):
        return '(%s %s %s)' % (to_text(t[1], ctl), tag, to_text(t[2], ctl))
    if tag in ('A', 'E'):
        inner = to_text(t[1], ctl)
        return '%s %s' % (tag, inner)
    raise ValueError(t)


# ----------------------------------------------------------------------------
# documented grammars

def _arity_ok(t):
    tag, n = t[0], len(t) - 1
    if tag in ('true', 'false'):
        return n == 0
    if tag == 'ap':
        return n == 1 and isinstance(t[1], str)
    if tag in ('not', 'X', 'F', 'G', 'A', 'E'):
        return n == 1
    if tag in ('imply', 'U', 'R'):
        return n == 2
    if tag in ('or', 'and'):
        return n >= 2
    return False


def wf_PL(t):
    if not _arity_ok(t):
        return False
    tag = t[0]
    if tag in ('true', 'false', 'ap'):
        return True
    if tag in ('not', 'or', 'and', 'imply'):
        return all(wf_PL(c) for c in t[1:])
    return False


def wf_CTLS_state(t):
    if not _arity_ok(t):
        return False
    tag = t[0]
    if tag in ('true', 'false', 'ap'):
        return True
    if tag in ('not', 'or', 'and', 'imply'):
        return all(wf_CTLS_state(c) for c in t[1:])
    if tag in ('A', 'E'):
        return wf_CTLS_path(t[1])
    return False


def wf_CTLS_path(t):
    if not _arity_ok(t):
        return False
    tag = t[0]
    if tag in ('true', 'false', 'ap'):
        return True
    if tag in ('A', 'E'):
        return wf_CTLS_path(t[1])
    if tag in ('not', 'or', 'and', 'imply', 'X', 'F', 'G', 'U', 'R'):
        return all(wf_CTLS_path(c) for c in t[1:])
    return False


def wf_CTL_state(t):
    if not _arity_ok(t):
        return False
    tag = t[0]
    if tag in ('true', 'false', 'ap'):
        return True
    if tag in ('not', 'or', 'and', 'imply'):
        return all(wf_CTL_state(c) for c in t[1:])
    if tag in ('A', 'E'):
        return wf_CTL_path(t[1])
    return False


def wf_CTL_path(t):
    if not _arity_ok(t):
        return False
    if t[0] in ('X', 'F', 'G', 'U', 'R'):
        return all(wf_CTL_state(c) for c in t[1:])
    return False


def wf_LTL_path(t):
    if not _arity_ok(t):
        return False
    tag = t[0]
    if tag in ('true', 'false', 'ap'):
        return True
    if tag in ('not', 'or', 'and', 'imply', 'X', 'F', 'G', 'U', 'R'):
        return all(wf_LTL_path(c) for c in t[1:])
    return False


def wf_LTL_state(t):
    return _arity_ok(t) and t[0] == 'A' and wf_LTL_path(t[1])


def wf_any(lang, t):
    """t is a formula (state or path) of the documented logic `lang`"""
    if lang == 'PL':
        return wf_PL(t)
    if lang == 'CTLS':
        return wf_CTLS_path(t)
    if lang == 'CTL':
        return wf_CTL_state(t) or wf_CTL_path(t)
    if lang == 'LTL':
        return wf_LTL_state(t) or wf_LTL_path(t)
    raise ValueError(lang)


def wf_state(lang, t):
    if lang == 'CTLS':
        return wf_CTLS_state(t)
    if lang == 'CTL':
        return wf_CTL_state(t)
    if lang == 'LTL':
        return wf_LTL_state(t)
    raise ValueError(lang)


# restricted alphabets (doc: "Restricted Syntax" sections)

def restricted_CTLS(t):
    tag = t[0]
    if tag in ('true', 'false', 'ap'):
        # the documentation counts Boolean values as atomic propositions
        return True
    if tag in ('not', 'or', 'X', 'U', 'E'):
        return all(restricted_CTLS(c) for c in t[1:])
    return False


def restricted_LTL(t):
    tag = t[0]
    if tag in ('true', 'false', 'ap'):
        return True
    if tag in ('not', 'or', 'X', 'U'):
        return all(restricted_LTL(c) for c in t[1:])
    return False


def restricted_CTL(t):
    tag = t[0]
    if tag in ('true', 'false', 'ap'):
        return True
    if tag in ('not', 'or'):
        return all(restricted_CTL(c) for c in t[1:])
    if tag == 'E':
        p = t[1]
        return p[0] in ('X', 'U', 'G') and all(restricted_CTL(c)
                                               for c in p[1:])
    return False


def leading_nots(t):
    n = 0
    while t[0] == 'not' and len(t) == 2:
        n += 1
        t = t[1]
    return n


def size(t):
    if t[0] == 'ap':
        return 1
    return 1 + sum(size(c) for c in t[1:])


def atoms_of(t, acc=None):
    acc = set() if acc is None else acc
    if t[0] == 'ap':
        acc.add(t[1])
    elif t[0] not in ('true', 'false', 'set'):
        for c in t[1:]:
            atoms_of(c, acc)
    return acc
