"""Executable reference semantics (spec vocabulary, run-time side).

Written from doc/source/logics.rst and model_checking.rst (CGP fair semantics),
NOT from the repository's algorithms:

* formulas are plain tuples (see trees.py);
* a Kripke structure is a SpecK (states, succ, lab);
* state formulas are evaluated bottom-up to sets of states;
* `E g` is decided on the explicit product  (state x valuation of the
  elementary formulas of g)  enumerated outright, with acceptance decided by the
  Emerson-Lei nested fixpoint (no SCC routine, no incremental atom splitting);
* every positive `E g` verdict can be certified by a lasso extracted from the
  product and re-evaluated with the independent position-wise evaluator
  `holds_on_lasso` (which knows nothing about products or fixpoints on K).
"""
from itertools import product as _product


class SpecK(object):
    """Finite Kripke structure as plain data."""

    def __init__(self, states, succ, lab):
        self.states = tuple(states)
        self.succ = {s: frozenset(succ.get(s, ())) for s in self.states}
        self.lab = {s: frozenset(lab.get(s, ())) for s in self.states}
        self.all = frozenset(self.states)

    @staticmethod
    def of(kripke):
        """Read a pyModelChecking.Kripke into plain data (uses only the
        private dicts, so that a broken accessor cannot hide itself)."""
        nxt = kripke._next
        lab = getattr(kripke, '_labels', {})
        return SpecK(list(nxt.keys()), {s: set(d) for s, d in nxt.items()},
                     {s: set(lab.get(s, ())) for s in nxt})

    def is_total(self):
        return all(len(self.succ[s]) > 0 for s in self.states)


# ----------------------------------------------------------------------------
# syntax helpers on tuples

TEMPORAL = ('X', 'F', 'G', 'U', 'R')
BOOLEAN = ('not', 'or', 'and', 'imply')


def is_state_formula(f):
    t = f[0]
    if t in ('true', 'false', 'ap', 'set', 'A', 'E'):
        return True
    if t in BOOLEAN:
        return all(is_state_formula(c) for c in f[1:])
    return False


def core(g):
    """Expand to the operators  set/true, not, or, X, U  by the documented
    definitions (F, G, R, and, imply, false)."""
    t = g[0]
    if t in ('set', 'true'):
        return g
    if t == 'false':
        return ('not', ('true',))
    if t == 'not':
        return ('not', core(g[1]))
    if t == 'or':
        return ('or',) + tuple(core(c) for c in g[1:])
    if t == 'and':
        return ('not', ('or',) + tuple(('not', core(c)) for c in g[1:]))
    if t == 'imply':
        return ('or', ('not', core(g[1])), core(g[2]))
    if t == 'X':
        return ('X', core(g[1]))
    if t == 'F':
        return ('U', ('true',), core(g[1]))
    if t == 'G':
        return ('not', ('U', ('true',), ('not', core(g[1]))))
    if t == 'U':
        return ('U', core(g[1]), core(g[2]))
    if t == 'R':
        return ('not', ('U', ('not', core(g[1])), ('not', core(g[2]))))
    raise ValueError('not a path formula: %r' % (g,))


def _subterms(g, acc):
    acc.add(g)
    if g[0] not in ('set', 'true'):
        for c in g[1:]:
            _subterms(c, acc)
    return acc


# ----------------------------------------------------------------------------
# existence of a (fair) path satisfying a path formula over 'set' atoms


def _pre(edges_rev, Z):
    out = set()
    for n in Z:
        out |= edges_rev.get(n, set())
    return out


def _eu_true(edges_rev, target):
    """backward reachability (mu Y. target | pre(Y))"""
    R = set(target)
    todo = list(target)
    while todo:
        n = todo.pop()
        for m in edges_rev.get(n, ()):
            if m not in R:
                R.add(m)
                todo.append(m)
    return R


def fair_nodes(nodes, edges, accept_sets):
    """Emerson-Lei: nodes from which an infinite path visits every set of
    accept_sets infinitely often:  nu Z. AND_i pre( E[ true U (Z & F_i) ] )
    (with no acceptance set: nu Z. pre(Z))."""
    edges_rev = {}
    for n, ds in edges.items():
        for d in ds:
            edges_rev.setdefault(d, set()).add(n)
    Z = set(nodes)
    sets = [set(a) for a in accept_sets] or [set(nodes)]
    while True:
        newZ = set(Z)
        for Fi in sets:
            newZ &= _pre(edges_rev, _eu_true(edges_rev, Z & Fi))
        if newZ == Z:
            return Z
        Z = newZ


def fair_states(K, F):
    """States of K from which some infinite path visits every set in F
    infinitely often (F None/empty: every state of a total K)."""
    F = [] if F is None else [frozenset(P) & K.all for P in F]
    return frozenset(fair_nodes(K.states, K.succ, F))


class Product(object):
    """Explicit product of K with the valuations of the elementary formulas
    of a core path formula g."""

    def __init__(self, K, g, F=None):
        self.K = K
        self.g = g
        subs = _subterms(g, set())
        self.untils = sorted([t for t in subs if t[0] == 'U'], key=repr)
        el = set(t for t in subs if t[0] == 'X')
        el |= set(('X', u) for u in self.untils)
        self.el = sorted(el, key=repr)
        idx = {e: i for i, e in enumerate(self.el)}
        self.idx = idx
        self.nodes = [(s, v) for s in K.states
                      for v in _product((False, True), repeat=len(self.el))]
        self._memo = {}
        self.edges = {}
        by_state = {}
        for n in self.nodes:
            by_state.setdefault(n[0], []).append(n)
        for n in self.nodes:
            s, v = n
            outs = set()
            for d in K.succ[s]:
                for m in by_state[d]:
                    if all(v[idx[e]] == self.holds(e[1], m) for e in self.el):
                        outs.add(m)
            self.edges[n] = outs
        acc = []
        for u in self.untils:
            acc.append(set(n for n in self.nodes
                           if (not self.holds(u, n)) or self.holds(u[2], n)))
        if F:
            for P in F:
                P = frozenset(P)
                acc.append(set(n for n in self.nodes if n[0] in P))
        self.accept = acc
        self.fair = fair_nodes(self.nodes, self.edges, acc)

    def holds(self, h, n):
        key = (h, n)
        r = self._memo.get(key)
        if r is not None:
            return r
        t = h[0]
        s, v = n
        if t == 'true':
            r = True
        elif t == 'set':
            r = s in h[1]
        elif t == 'not':
            r = not self.holds(h[1], n)
        elif t == 'or':
            r = any(self.holds(c, n) for c in h[1:])
        elif t == 'X':
            r = v[self.idx[h]]
        elif t == 'U':
            r = self.holds(h[2], n) or (self.holds(h[1], n) and
                                        v[self.idx[('X', h)]])
        else:
            raise ValueError(h)
        self._memo[key] = r
        return r

    def sat_states(self):
        return frozenset(n[0] for n in self.fair if self.holds(self.g, n))

    def witness_lasso(self, s):
        """A lasso (stem, loop) of *states* from s whose path satisfies g and
        visits every acceptance set, extracted from the product; None if no
        such node."""
        starts = [n for n in self.fair if n[0] == s and self.holds(self.g, n)]
        if not starts:
            return None
        fair = self.fair
        sets = [a & fair for a in self.accept] or [set(fair)]

        def bfs(src, target, at_least_one):
            # shortest path inside `fair` from src to a node of target
            prev = {}
            frontier = []
            for m in self.edges[src]:
                if m in fair and m not in prev:
                    prev[m] = None
                    frontier.append(m)
            if not at_least_one and src in target:
                return []
            while frontier:
                nxt = []
                for m in frontier:
                    if m in target:
                        path = [m]
                        while prev[path[-1]] is not None:
                            path.append(prev[path[-1]])
                        return list(reversed(path))
                    for k in self.edges[m]:
                        if k in fair and k not in prev:
                            prev[k] = m
                            nxt.append(k)
                frontier = nxt
            return None

        path = [starts[0]]
        seen = {}
        i = 0
        while True:
            key = (path[-1], i)
            if key in seen:
                cut = seen[key]
                nodes_stem, nodes_loop = path[:cut], path[cut:-1]
                return ([n[0] for n in nodes_stem], [n[0] for n in nodes_loop])
            seen[key] = len(path) - 1
            seg = bfs(path[-1], sets[i], True)
            if seg is None:
                return None
            path.extend(seg)
            i = (i + 1) % len(sets)


def exists_path(K, g, F=None):
    """States from which some (F-fair) path satisfies the path formula g,
    whose leaves are ('set', S) / ('true',) / ('false',)."""
    return Product(K, core(g), F).sat_states()


# ----------------------------------------------------------------------------
# state-formula evaluation (CTL* with optional CGP fairness)


def _abstract_state_subformulas(K, g, F, bool_is_atom, memo):
    if is_state_formula(g):
        return ('set', sat(K, g, F, bool_is_atom, memo))
    return (g[0],) + tuple(_abstract_state_subformulas(K, c, F, bool_is_atom,
                                                       memo)
                           for c in g[1:])


def sat(K, f, F=None, bool_is_atom=True, memo=None):
    """{s | K,s |= f} for a CTL* state formula f.  With F (a list of state
    sets): CGP fair semantics - path quantifiers range over fair paths, an atom
    p means `p in L(s) and a fair path starts at s` (Boolean constants count as
    atoms when bool_is_atom, as in the package's class hierarchy and
    documentation)."""
    if memo is None:
        memo = {}
    key = f
    if key in memo:
        return memo[key]
    t = f[0]
    fair = None
    if F is not None:
        fair = memo.get('__fair__')
        if fair is None:
            fair = fair_states(K, F)
            memo['__fair__'] = fair
    if t == 'set':
        r = frozenset(f[1])
    elif t == 'true':
        r = K.all if (fair is None or not bool_is_atom) else fair
    elif t == 'false':
        r = frozenset()
    elif t == 'ap':
        r = frozenset(s for s in K.states if f[1] in K.lab[s])
        if fair is not None:
            r &= fair
    elif t == 'not':
        r = K.all - sat(K, f[1], F, bool_is_atom, memo)
    elif t == 'or':
        r = frozenset()
        for c in f[1:]:
            r |= sat(K, c, F, bool_is_atom, memo)
    elif t == 'and':
        r = K.all
        for c in f[1:]:
            r &= sat(K, c, F, bool_is_atom, memo)
    elif t == 'imply':
        r = (K.all - sat(K, f[1], F, bool_is_atom, memo)) | \
            sat(K, f[2], F, bool_is_atom, memo)
    elif t == 'E':
        g = _abstract_state_subformulas(K, f[1], F, bool_is_atom, memo)
        r = exists_path(K, g, F)
    elif t == 'A':
        g = _abstract_state_subformulas(K, f[1], F, bool_is_atom, memo)
        r = K.all - exists_path(K, ('not', g), F)
    else:
        raise ValueError('not a state formula: %r' % (f,))
    memo[key] = r
    return r


# ----------------------------------------------------------------------------
# independent position-wise evaluator on an ultimately periodic path


def holds_on_lasso(K, g, stem, loop, F=None, bool_is_atom=True):
    """Truth of path formula g (any operators; state subformulas are evaluated
    with `sat`) on the path stem . loop^omega, position 0.  Independent of the
    product construction: values are computed per position of the finite
    representation, U/F/R/G by iterating their one-step expansion to a fixpoint
    along the single-successor lasso."""
    pos = list(stem) + list(loop)
    n = len(pos)
    assert len(loop) > 0
    nxt = [i + 1 for i in range(n)]
    nxt[n - 1] = len(stem)
    memo = {}

    def ev(h):
        if h in memo:
            return memo[h]
        t = h[0]
        if is_state_formula(h):
            S = sat(K, h, F, bool_is_atom)
            r = [pos[i] in S for i in range(n)]
        elif t == 'not':
            a = ev(h[1])
            r = [not x for x in a]
        elif t == 'or':
            cs = [ev(c) for c in h[1:]]
            r = [any(c[i] for c in cs) for i in range(n)]
        elif t == 'and':
            cs = [ev(c) for c in h[1:]]
            r = [all(c[i] for c in cs) for i in range(n)]
        elif t == 'imply':
            a, b = ev(h[1]), ev(h[2])
            r = [(not a[i]) or b[i] for i in range(n)]
        elif t == 'X':
            a = ev(h[1])
            r = [a[nxt[i]] for i in range(n)]
        elif t in ('U', 'F'):
            a = ev(h[1]) if t == 'U' else [True] * n
            b = ev(h[2]) if t == 'U' else ev(h[1])
            r = [False] * n           # least fixpoint
            for _ in range(n + 1):
                r = [b[i] or (a[i] and r[nxt[i]]) for i in range(n)]
        elif t in ('R', 'G'):
            a = ev(h[1]) if t == 'R' else [False] * n
            b = ev(h[2]) if t == 'R' else ev(h[1])
            r = [True] * n            # greatest fixpoint
            for _ in range(n + 1):
                r = [b[i] and (a[i] or r[nxt[i]]) for i in range(n)]
        else:
            raise ValueError(h)
        memo[h] = r
        return r

    return ev(g)[0]


def is_path(K, stem, loop):
    seq = list(stem) + list(loop) + [loop[0]]
    return all(seq[i + 1] in K.succ[seq[i]] for i in range(len(seq) - 1))


def lasso_is_fair(loop, F):
    return all(any(s in P for s in loop) for P in (F or []))


def all_lassos(K, s, max_stem, max_loop):
    """All lassos (stem, loop) from s with |stem| <= max_stem, 1 <= |loop| <=
    max_loop (stem includes s unless empty, in which case the loop starts at s)."""
    def walks(start, length):
        if length == 1:
            yield [start]
            return
        for w in walks(start, length - 1):
            for d in K.succ[w[-1]]:
                yield w + [d]
    for total in range(1, max_stem + max_loop + 1):
        for w in walks(s, total):
            for cut in range(max(0, total - max_loop), min(max_stem, total - 1) + 1):
                stem, loop = w[:cut], w[cut:]
                if loop[0] in K.succ[loop[-1]]:
                    yield stem, loop


def sat_by_lasso_enumeration(K, s, g, F, max_stem, max_loop):
    """Brute force `K,s |= E g` restricted to lassos within the bounds (used
    only to audit the product oracle on tiny cases)."""
    for stem, loop in all_lassos(K, s, max_stem, max_loop):
        if lasso_is_fair(loop, F) and holds_on_lasso(K, g, stem, loop, F):
            return True
    return False
