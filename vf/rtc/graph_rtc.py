"""Run-time (bounded) form of the graph.py contracts (C13) and of the
compute_SCCs contract (C12).  Each check_* takes a literal input, runs the REAL
functions of /repo and returns a list of failures (kind, what)."""
import copy


def _closure(V, E, X):
    R = set(X)
    todo = list(X)
    succ = {}
    for s, d in E:
        succ.setdefault(s, set()).add(d)
    while todo:
        s = todo.pop()
        for d in succ.get(s, ()):
            if d not in R:
                R.add(d)
                todo.append(d)
    return R


def view(G):
    V = set(G._next.keys())
    E = set((s, d) for s, ds in G._next.items() for d in ds)
    return V, E


def _ids(G):
    return set(id(ds) for ds in G._next.values()) | {id(G._next)}


def _snapshot(G):
    return ({s: set(ds) for s, ds in G._next.items()},
            {s: id(ds) for s, ds in G._next.items()}, id(G._next))


def _unchanged(G, snap):
    vals, ids, did = snap
    if id(G._next) != did:
        return False
    if set(G._next.keys()) != set(vals.keys()):
        return False
    return all(G._next[s] == vals[s] and id(G._next[s]) == ids[s]
               for s in vals)


def _raises(fn, exc):
    try:
        r = fn()
    except exc:
        return True, None
    except Exception as e:       # another class
        return 'other:%s' % type(e).__name__, None
    return False, r


def check_graph_case(case):
    """case = (nodes, edges, X)"""
    from pyModelChecking.graph import DiGraph
    nodes, edges, X = case
    X = set(X)
    fails = []

    def bad(kind, what):
        fails.append((kind, '%s on DiGraph(V=%r,E=%r), X=%r' % (what, nodes,
                                                               edges,
                                                               sorted(X, key=repr))))

    G = DiGraph(V=list(nodes), E=list(edges))
    V0 = set(nodes) | set(s for s, d in edges) | set(d for s, d in edges)
    E0 = set(edges)
    V, E = view(G)
    if V != V0 or E != E0:
        bad('__init__:ensures:view', 'constructor view is V=%r E=%r' % (V, E))
    if len(set(id(ds) for ds in G._next.values())) != len(G._next):
        bad('__init__:ensures:distinct_sets', 'successor sets are shared')
    if any(d not in G._next for ds in G._next.values() for d in ds):
        bad('__init__:ensures:wfG', 'an edge target is not a node')
    snap = _snapshot(G)

    # accessors
    if set(G.nodes()) != V0 or len(list(G.nodes())) != len(V0):
        bad('nodes:ensures', 'nodes() = %r' % (list(G.nodes()),))
    el = G.edges()
    if not isinstance(el, list) or set(el) != E0 or len(el) != len(E0):
        bad('edges:ensures', 'edges() = %r' % (el,))
    ei = list(G.edges_iter())
    if set(ei) != E0 or len(ei) != len(E0):
        bad('edges_iter:ensures', 'edges_iter() = %r' % (ei,))
    src = list(G.sources())
    if set(src) != set(s for s, d in E0) or len(src) != len(set(src)):
        bad('sources:ensures', 'sources() = %r' % (src,))
    for v in list(V0) + ['#notanode']:
        r, val = _raises(lambda: G.next(v), RuntimeError)
        if v in V0:
            if r is not False or val is not G._next[v] or \
                    set(val) != set(d for s, d in E0 if s == v):
                bad('next:ensures', 'next(%r) = %r (raise=%r)' % (v, val, r))
        elif r is not True:
            bad('next:raises', 'next(%r) of a non-node: raise=%r' % (v, r))

    # reachability
    r, R = _raises(lambda: G.get_reachable_set_from(set(X)), RuntimeError)
    if X <= V0:
        exp = _closure(V0, E0, X)
        if r is not False or not isinstance(R, set) or R != exp:
            bad('get_reachable_set_from:ensures:result',
                'reachable set = %r (raise=%r), expected %r' % (R, r, exp))
        elif id(R) in _ids(G):
            bad('get_reachable_set_from:fresh', 'result aliases an internal set')
        else:
            R.add('#junk')
            R.clear()
    elif r is not True:
        bad('get_reachable_set_from:raises',
            'X not within V but raise=%r result=%r' % (r, R))
    # the argument is the caller's: a set passed in is neither returned nor changed (also when it is one of
    # G's own successor sets, handed out by next())
    if X <= V0:
        arg = set(X)
        Ra = G.get_reachable_set_from(arg)
        if Ra is arg:
            bad('get_reachable_set_from:fresh', 'the result IS the set object passed as argument')
        if arg != X:
            bad('get_reachable_set_from:frame:argument', 'the set passed as argument was changed to %r' % (sorted(arg, key=repr),))
        for v in sorted(V0, key=repr)[:3]:
            before = (view(G), set(G.next(v)))
            Rn = G.get_reachable_set_from(G.next(v))
            if Rn is G._next[v] or view(G) != before[0]:
                bad('get_reachable_set_from:frame:graph', 'get_reachable_set_from(G.next(%r)) changed G or returned its successor set: now %r'
                    % (v, view(G)))
                break
            if Rn != _closure(V0, E0, before[1]):
                bad('get_reachable_set_from:ensures:result', 'reachable set from next(%r) = %r' % (v, Rn))
    # list argument with duplicates gives the same answer
    if X <= V0 and X:
        lst = sorted(X, key=repr) * 2
        R2 = G.get_reachable_set_from(lst)
        if R2 != _closure(V0, E0, X):
            bad('get_reachable_set_from:ensures:result',
                'reachable set from list %r = %r' % (lst, R2))

    # reversal
    H = G.get_reversed_graph()
    HV, HE = view(H)
    if HV != V0:
        bad('get_reversed_graph:ensures:nodes', 'reversed nodes = %r' % (HV,))
    if HE != set((d, s) for s, d in E0):
        bad('get_reversed_graph:ensures:edges', 'reversed edges = %r' % (HE,))
    if _ids(H) & _ids(G):
        bad('get_reversed_graph:fresh', 'reversed graph shares a set with G')
    HH = H.get_reversed_graph()
    if view(HH) != (V0, E0):
        bad('get_reversed_graph:lemma:rev_rev', 'reversing twice = %r' % (view(HH),))

    # subgraph
    argS = set(X)
    S = G.get_subgraph(argS)
    if argS != X:
        bad('get_subgraph:frame:argument', 'the set passed as argument was changed')
    SV, SE = view(S)
    if SV != (X & V0):
        bad('get_subgraph:ensures:nodes', 'subgraph nodes = %r' % (SV,))
    if SE != set((s, d) for s, d in E0 if s in X and d in X):
        bad('get_subgraph:ensures:edges', 'subgraph edges = %r' % (SE,))
    if _ids(S) & _ids(G):
        bad('get_subgraph:fresh', 'subgraph shares a set with G')

    # clone
    C = G.clone()
    if view(C) != (V0, E0) or type(C) is not type(G):
        bad('clone:ensures:view', 'clone view = %r' % (view(C),))
    if _ids(C) & _ids(G) or len(set(id(ds) for ds in C._next.values())) != len(C._next):
        bad('clone:fresh', 'clone shares a set object')
    if not _unchanged(G, snap):
        bad('frame:queries_modify_self', 'G changed by a query: now %r' % (view(G),))
    # mutate every derived graph; G must not move
    for D in (H, HH, S, C):
        for ds in D._next.values():
            ds.add('#junk')
        D._next['#junk2'] = set()
    if not _unchanged(G, snap):
        bad('frame:derived_graph_aliases_self',
            'mutating a derived graph changed G: now %r' % (view(G),))

    # mutators (on a clone built independently)
    for v in list(V0)[:2] + ['#new']:
        M = DiGraph(V=list(nodes), E=list(edges))
        r, _ = _raises(lambda: M.add_node(v), RuntimeError)
        if v in V0:
            if r is not True or view(M) != (V0, E0):
                bad('add_node:raises', 'add_node(%r) existing: raise=%r view=%r' % (v, r, view(M)))
        elif r is not False or view(M) != (V0 | {v}, E0):
            bad('add_node:ensures', 'add_node(%r): raise=%r view=%r' % (v, r, view(M)))
    cand = [(s, d) for s in list(V0)[:3] + ['#a'] for d in list(V0)[:3] + ['#b']]
    for (s, d) in cand:
        M = DiGraph(V=list(nodes), E=list(edges))
        r, _ = _raises(lambda: M.add_edge(s, d), RuntimeError)
        if (s, d) in E0:
            if r is not True or view(M) != (V0, E0):
                bad('add_edge:raises', 'add_edge%r existing: raise=%r view=%r' % ((s, d), r, view(M)))
        elif r is not False or view(M) != (V0 | {s, d}, E0 | {(s, d)}):
            bad('add_edge:ensures', 'add_edge%r: raise=%r view=%r' % ((s, d), r, view(M)))
    return fails


def graph_case_nontrivial(case):
    nodes, edges, X = case
    return len(edges) > 0 and len(X) > 0


# ----------------------------------------------------------------------------
# C12

def _mutual(V, E):
    reach = {v: _closure(V, E, {v}) for v in V}
    return reach


def check_scc_case(case):
    """case = (nodes in insertion order, edges in insertion order)"""
    from pyModelChecking.graph import DiGraph, compute_SCCs
    nodes, edges = case
    fails = []

    def bad(kind, what):
        fails.append((kind, '%s on DiGraph(V=%r,E=%r)' % (what, nodes, edges)))
    G = DiGraph(V=list(nodes), E=list(edges))
    V, E = view(G)
    snap = _snapshot(G)
    try:
        comps = [list(c) for c in compute_SCCs(G)]
    except Exception as e:
        bad('compute_SCCs:raises', 'raised %s: %s' % (type(e).__name__, e))
        return fails
    flat = [v for c in comps for v in c]
    if any(len(c) == 0 for c in comps):
        bad('compute_SCCs:ensures:nonempty', 'an empty component in %r' % (comps,))
    if sorted(flat, key=repr) != sorted(V, key=repr):
        bad('compute_SCCs:ensures:partition',
            'components %r are not a partition of %r' % (comps, sorted(V, key=repr)))
        return fails
    reach = _mutual(V, E)
    where = {v: i for i, c in enumerate(comps) for v in c}
    for u in V:
        for v in V:
            same = where[u] == where[v]
            mutual = v in reach[u] and u in reach[v]
            if same != mutual:
                bad('compute_SCCs:ensures:mutual_reachability',
                    '%r,%r same component=%r but mutually reachable=%r (components %r)'
                    % (u, v, same, mutual, comps))
                return fails
    if not _unchanged(G, snap):
        bad('compute_SCCs:frame', 'the graph was modified')
    # call sequences on ONE graph object: a second complete call, a call after an abandoned (partly consumed) generator,
    # and a call after the caller added an edge, all give the components of the graph as it is at that call
    def partition(cs):
        return sorted((sorted(c, key=repr) for c in cs), key=repr)
    try:
        again = [list(c) for c in compute_SCCs(G)]
        if partition(again) != partition(comps):
            bad('compute_SCCs:ensures:second_call', 'a second call gives %r, the first gave %r' % (again, comps))
        G2 = DiGraph(V=list(nodes), E=list(edges))        # (a graph object on which no call was ever completed)
        it = iter(compute_SCCs(G2))
        next(it, None)
        del it
        after = [list(c) for c in compute_SCCs(G2)]
        if partition(after) != partition(comps):
            bad('compute_SCCs:ensures:after_abandoned_generator', 'after a generator abandoned at its first component a call gives %r, expected %r' % (after, comps))
        order = [v for v in nodes if v in V] + [v for v in V if v not in nodes]
        missing = [(a, b) for a in reversed(order) for b in order if (a, b) not in E]
        if missing:
            a, b = missing[0]        # (add_edge refuses an edge that is already there)
            G.add_edge(a, b)
            V2, E2 = view(G)
            reach2 = _mutual(V2, E2)
            comps2 = [list(c) for c in compute_SCCs(G)]
            where2 = {v: i for i, c in enumerate(comps2) for v in c}
            if sorted(where2, key=repr) != sorted(V2, key=repr) or any(
                    (where2[u] == where2[v]) != (v in reach2[u] and u in reach2[v]) for u in V2 for v in V2):
                bad('compute_SCCs:ensures:after_add_edge', 'after add_edge(%r, %r) the components are %r' % (a, b, comps2))
    except Exception as e:
        bad('compute_SCCs:raises', 'a later call raised %s: %s' % (type(e).__name__, e))
    return fails


def check_scc_type(_):
    from pyModelChecking.graph import compute_SCCs
    fails = []
    for junk in (None, 3, {'a': {'a'}}, [(0, 1)]):
        try:
            list(compute_SCCs(junk))
            fails.append(('compute_SCCs:raises:TypeError',
                          'compute_SCCs(%r) did not raise' % (junk,)))
        except TypeError:
            pass
        except Exception as e:
            fails.append(('compute_SCCs:raises:TypeError',
                          'compute_SCCs(%r) raised %s' % (junk, type(e).__name__)))
    return fails


def scc_case_nontrivial(case):
    return len(case[1]) > 0
