"""Bounded stand-in driver: run a check function of a vf.rtc module over many
literal cases in the process pool, turn failures into violations with a replay
script that calls the same function on the same literal."""
import importlib
import zlib

from .. import core

_MAX_FAILS_PER_CHUNK = 50


def guarded(fn, c):
    """fn(c); an exception that the check function did not anticipate is a VIOLATION when it was raised
    inside the package under test (innermost frame in $VERIF_REPO) - no property allows an operation on
    the inputs the checks build to end in an unanticipated exception - and a checker crash otherwise"""
    try:
        return fn(c)
    except Exception as e:
        import os
        import traceback
        tb = traceback.extract_tb(e.__traceback__)
        inner = tb[-1] if tb else None
        repo = os.path.realpath(core.REPO) + os.sep
        if inner is not None and os.path.realpath(inner.filename).startswith(repo):
            where = '%s:%d in %s' % (os.path.relpath(os.path.realpath(inner.filename), repo), inner.lineno, inner.name)
            return [('raises:unexpected', 'the code under test raised %s (%s) at %s' % (type(e).__name__, str(e)[:120], where),
                     {'exception': type(e).__name__})]
        return [('checker-exception', '%s: %s' % (type(e).__name__, traceback.format_exc()[-600:]))]


def _work(arg):
    modname, fname, ntname, cases = arg
    mod = importlib.import_module(modname)
    fn = getattr(mod, fname)
    nt = getattr(mod, ntname) if ntname else None
    fails = []
    keys = set()
    total = 0
    for c in cases:
        fs = guarded(fn, c)
        if isinstance(fs, dict):
            # the check function measured its own sub-cases
            total += fs['n']
            keys |= set(_k(k) for k in fs['keys'])
            fs = fs['fails']
        else:
            total += 1
            if nt is None or nt(c):
                keys.add(_k(c))
        for f in fs:
            if len(fails) < _MAX_FAILS_PER_CHUNK:
                fails.append((c,) + tuple(f))
    return total, keys, fails


def _k(c):
    r = repr(c).encode()
    return (zlib.crc32(r) << 32) | zlib.adler32(r)


def replay_script(modname, fname, case, kind):
    return ("import sys\n"
            "sys.path.insert(0, %r)\n"
            "from %s import %s\n"
            "from vf.rtc.driver import guarded\n"
            "case = %s\n"
            "fails = guarded(%s, case)\n"
            "fails = fails['fails'] if isinstance(fails, dict) else fails\n"
            "hits = [f for f in fails if f[0] == %r]\n"
            "for f in fails: print('FAIL', f)\n"
            "print('reproduced' if hits else 'not reproduced')\n"
            "REPRODUCED = 1 if hits else 0\n"
            % (core.ROOT, modname, fname, core.lit(case), fname, kind))


def run_cases(ctx, name, modname, fname, cases, rule, nontrivial=None,
              exhaustive=False, prop=None, attrs_fn=None, chunk=None):
    """cases: list of literal inputs.  The check function returns a list of
    (kind, what) or (kind, what, attrs)."""
    cases = list(cases)
    if not cases:
        return 0
    if modname in ('vf.rtc.mc_rtc', 'vf.rtc.fair_rtc'):
        rule += ('; structures are built by gen.mk_kripke with initial states none/first/last/all and label/transition containers '
                 'set/list/tuple/frozenset/with a repetition, fixed per structure')
        if fname == 'check_mc_case':
            rule += ('; every third formula also on the structure whose labelling was installed by replace_labelling_function (with an extra '
                     'key that is not a state); CTL* formulas also on a structure carrying atoms named like the reduction\'s markers; two formulas again '
                     'after the caller toggled a label through labels(s) and added an edge, against the semantics of the edited structure')
        if fname == 'check_fresh_case':
            rule += ('; every query also on the structure whose labelling was installed by replace_labelling_function (with an extra key that '
                     'is not a state and carries every atom of the formulas)')
    chunk = chunk or max(1, min(2000, len(cases) // (core.NPROC * 4) or 1))
    jobs = [(modname, fname, nontrivial, cases[i:i + chunk])
            for i in range(0, len(cases), chunk)]
    res = ctx.pmap(_work, jobs, chunksize=1)
    total = 0
    keys = set()
    nfail = 0
    for n, ks, fails in res:
        total += n
        keys |= ks
        for f in fails:
            case, kind, what = f[0], f[1], f[2]
            attrs = dict(f[3]) if len(f) > 3 and f[3] else {}
            if len(f) > 4 and f[4] is not None:
                case = f[4]
            nfail += 1
            if kind == 'checker-exception':
                raise RuntimeError('check function %s.%s crashed on %r: %s'
                                   % (modname, fname, case, what))
            ctx.violation(core.Violation(prop or ctx.prop, kind, what,
                                         attrs=attrs,
                                         script=replay_script(modname, fname,
                                                              case, kind)))
    ctx.add_bounded(name, total, keys, rule, cases[:2] + cases[-1:],
                    exhaustive=exhaustive)
    return nfail
