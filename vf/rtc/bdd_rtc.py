"""Run-time (bounded) contracts of the BDD layer (C16, C17, C18).

Boolean expressions are tuples: ('v', name) ('c', 0|1) ('~', e) ('&', e, f)
('|', e, f); denotations are truth tables over the ordering's variables."""
import gc
import itertools
import random

from .mc_rtc import call


def ev(e, a):
    t = e[0]
    if t == 'v':
        return bool(a[e[1]])
    if t == 'c':
        return bool(e[1])
    if t == '~':
        return not ev(e[1], a)
    if t == '&':
        return ev(e[1], a) and ev(e[2], a)
    if t == '|':
        return ev(e[1], a) or ev(e[2], a)
    if t == '^':
        return ev(e[1], a) != ev(e[2], a)
    raise ValueError(e)


def text(e, style=0):
    """style 0: & | ~ ; style 1: and or not"""
    t = e[0]
    if t == 'v':
        return e[1]
    if t == 'c':
        return str(e[1])
    ops = {0: {'~': '~', '&': ' & ', '|': ' | '}, 1: {'~': 'not ', '&': ' and ', '|': ' or '}}[style]
    if t == '~':
        return '%s(%s)' % (ops['~'], text(e[1], style))
    return '(%s%s%s)' % (text(e[1], style), ops[t], text(e[2], style))


_PREC = {'|': 1, '&': 2, '~': 3, 'v': 4, 'c': 4}


def text_min(e, style=0):
    """the same expression with the fewest brackets Python needs: `a and b and c`, `~a & b | c`.  Unbracketed chains of
    one operator reach the library as ONE n-ary node (ast.BoolOp) or as a left-nested chain (ast.BinOp); and/or are
    associative, so the denoted function is the one of the bracketed form"""
    t = e[0]
    if t in ('v', 'c'):
        return str(e[1])
    ops = {0: {'~': '~', '&': ' & ', '|': ' | '}, 1: {'~': 'not ', '&': ' and ', '|': ' or '}}[style]

    def sub(c, p):
        x = text_min(c, style)
        return '(%s)' % x if _PREC[c[0]] < p else x
    if t == '~':
        return ops['~'] + sub(e[1], 3)
    return sub(e[1], _PREC[t]) + ops[t] + sub(e[2], _PREC[t])


def chains(vs, rng, n):
    """left-nested chains of 3-6 operands of one operator (literals, constants, small sub-expressions)"""
    out = []
    for _ in range(n):
        op = rng.choice('&|')
        k = rng.randint(3, 6)
        items = []
        for _ in range(k):
            r = rng.random()
            v = ('v', rng.choice(vs))
            items.append(v if r < 0.5 else ('~', v) if r < 0.75 else ('c', rng.randint(0, 1)) if r < 0.8
                         else (('|' if op == '&' else '&'), v, ('v', rng.choice(vs))))
        e = items[0]
        for x in items[1:]:
            e = (op, e, x)
        out.append(e)
    return out


def vars_of(e, acc=None):
    acc = set() if acc is None else acc
    if e[0] == 'v':
        acc.add(e[1])
    elif e[0] != 'c':
        for c in e[1:]:
            vars_of(c, acc)
    return acc


def assignments(vs):
    vs = list(vs)
    for bits in itertools.product((False, True), repeat=len(vs)):
        yield dict(zip(vs, bits))


def table(e, vs):
    return tuple(ev(e, a) for a in assignments(vs))


def den(node, a):
    from pyModelChecking.BDD.BDD import BDDTerminalNode
    while not isinstance(node, BDDTerminalNode):
        node = node.high if a[node.var] else node.low
    return bool(node.value)


def node_table(node, vs):
    return tuple(den(node, a) for a in assignments(vs))


def walk(node):
    from pyModelChecking.BDD.BDD import BDDTerminalNode
    seen = {}
    todo = [node]
    while todo:
        n = todo.pop()
        if id(n) in seen:
            continue
        seen[id(n)] = n
        if not isinstance(n, BDDTerminalNode):
            todo += [n.low, n.high]
    return list(seen.values())


def shape_errors(node, order):
    """ordered (strictly earlier than children) and reduced (distinct children,
    no two reachable nodes with the same triple)"""
    from pyModelChecking.BDD.BDD import BDDTerminalNode
    pos = {v: i for i, v in enumerate(order)}
    errs = []
    triples = {}
    for n in walk(node):
        if isinstance(n, BDDTerminalNode):
            continue
        if n.var not in pos:
            errs.append('variable %r outside the ordering' % (n.var,))
            continue
        for c in (n.low, n.high):
            if not isinstance(c, BDDTerminalNode) and not (c.var in pos and pos[n.var] < pos[c.var]):
                errs.append('node %r above child %r violates the ordering' % (n.var, c.var))
        if n.low is n.high:
            errs.append('node %r has identical children' % (n.var,))
        k = (n.var, id(n.low), id(n.high))
        if k in triples:
            errs.append('two reachable nodes share (var,low,high) for %r' % (n.var,))
        triples[k] = n
    return errs


def support(tab, vs):
    vs = list(vs)
    asg = list(assignments(vs))
    sup = set()
    idx = {tuple(sorted(a.items())): i for i, a in enumerate(asg)}
    for v in vs:
        for i, a in enumerate(asg):
            b = dict(a)
            b[v] = not b[v]
            if tab[i] != tab[idx[tuple(sorted(b.items()))]]:
                sup.add(v)
                break
    return sup


def check_ops_case(case):
    """case = (ordering, e1, e2)"""
    from pyModelChecking.BDD import OBDD
    order, e1, e2 = case
    fails = []

    def bad(kind, what):
        fails.append((kind, '%s [ordering %r, f=%s, g=%s]' % (what, order, text(e1), text(e2))))
    f = OBDD(text(e1), list(order))
    g = OBDD(text(e2), list(order))
    tf, tg = table(e1, order), table(e2, order)
    if node_table(f.root, order) != tf or node_table(g.root, order) != tg:
        bad('parse:ensures:den', 'a parsed operand denotes the wrong function')
        return fails
    for name, op, fn in (('&', lambda x, y: x & y, lambda x, y: x and y),
                         ('|', lambda x, y: x | y, lambda x, y: x or y),
                         ('^', lambda x, y: x ^ y, lambda x, y: x != y)):
        r = call(op, f, g)
        if r[0] != 'ok':
            bad('apply:raises', 'f %s g raised %s (%s)' % (name, r[1], r[2]))
            continue
        h = r[1]
        exp = tuple(bool(fn(x, y)) for x, y in zip(tf, tg))
        got = node_table(h.root, order)
        if got != exp:
            bad('apply:ensures:den', 'f %s g denotes %r, expected %r' % (name, got, exp))
        se = shape_errors(h.root, order)
        if se:
            bad('apply:ensures:shape', 'f %s g: %s' % (name, se[0]))
        if h.ordering != f.ordering:
            bad('apply:ensures:ordering', 'result ordering differs')
        if h.variables() != support(exp, order):
            bad('variables:ensures:support', 'variables() of f %s g = %r, support is %r' % (name, h.variables(), support(exp, order)))
    r = call(lambda: ~f)
    if r[0] != 'ok':
        bad('invert:raises', '~f raised %s' % (r[1],))
    else:
        if node_table(r[1].root, order) != tuple(not x for x in tf):
            bad('invert:ensures:den', '~f denotes %r' % (node_table(r[1].root, order),))
        se = shape_errors(r[1].root, order)
        if se:
            bad('invert:ensures:shape', '~f: %s' % se[0])
    asg = list(assignments(order))
    for v in order:
        for b in (0, 1, False, True):
            r = call(f.restrict, v, b)
            if r[0] != 'ok':
                bad('restrict:raises', 'f.restrict(%r,%r) raised %s (%s)' % (v, b, r[1], r[2]))
                continue
            exp = tuple(ev(e1, dict(a, **{v: bool(b)})) for a in asg)
            got = node_table(r[1].root, order)
            if got != exp:
                bad('restrict:ensures:den', 'f.restrict(%r,%r) denotes %r, expected %r' % (v, b, got, exp))
            se = shape_errors(r[1].root, order)
            if se:
                bad('restrict:ensures:shape', 'f.restrict(%r,%r): %s' % (v, b, se[0]))
            if v in r[1].variables():
                bad('restrict:ensures:var_removed', 'restricted variable still present')
    if f.variables() != support(tf, order):
        bad('variables:ensures:support', 'variables() = %r, support is %r' % (f.variables(), support(tf, order)))
    if node_table(f.root, order) != tf or node_table(g.root, order) != tg:
        bad('frame:operands', 'an operand changed')
    # canonicity inside one case (C16 owns it; cheap to evaluate here)
    same = tf == tg
    if (f == g) != same or (f.root is g.root) != same:
        bad('canonical:eq_iff_same_function', 'f == g is %r, roots identical %r, same function %r' % (f == g, f.root is g.root, same))
    return fails


def check_ordering_guard_case(case):
    """different orderings / variable outside the ordering raise RuntimeError"""
    from pyModelChecking.BDD import OBDD
    order, e1 = case
    fails = []

    def bad(kind, what):
        fails.append((kind, '%s [ordering %r, f=%s]' % (what, order, text(e1))))
    f = OBDD(text(e1), list(order))
    if len(order) > 1:
        other = list(reversed(order))
        g = OBDD(text(e1), other)
        for name, op in (('&', lambda: f & g), ('|', lambda: f | g), ('^', lambda: f ^ g)):
            r = call(op)
            if r[0] == 'ok' or r[1] != 'RuntimeError':
                bad('apply:raises:ordering', 'combining different orderings with %s gave %r' % (name, r[:2]))
        if (f == g):
            bad('eq:ordering', 'OBDDs over different orderings compare equal')
    used = vars_of(e1)
    if used:
        v = sorted(used)[0]
        short = [x for x in order if x != v]
        r = call(OBDD, text(e1), short)
        if r[0] == 'ok' or r[1] != 'RuntimeError':
            bad('init:raises:missing_variable', 'expression uses %r outside ordering %r: %r' % (v, short, r[:2]))
        r = call(OBDD, f.root, short)
        if v in f.variables() and (r[0] == 'ok' or r[1] != 'RuntimeError'):
            bad('init:raises:missing_variable', 'root uses %r outside ordering %r: %r' % (v, short, r[:2]))
    r = call(lambda: f & 3)
    if r[0] == 'ok' or r[1] != 'TypeError':
        bad('apply:raises:type', 'f & 3 gave %r' % (r[:2],))
    return fails


# ----------------------------------------------------------------------------
# C16: histories

def rand_expr(rng, vs, depth):
    if depth == 0 or rng.random() < 0.2:
        return ('v', rng.choice(vs)) if rng.random() < 0.85 else ('c', rng.randint(0, 1))
    k = rng.random()
    if k < 0.25:
        return ('~', rand_expr(rng, vs, depth - 1))
    return (rng.choice('&|'), rand_expr(rng, vs, depth - 1), rand_expr(rng, vs, depth - 1))


def live_scan():
    """duplicate-triple / identical-children scan over every node in memory"""
    from pyModelChecking.BDD.BDD import BDDNode, BDDTerminalNode
    errs = []
    triples = {}
    for n in BDDNode.nodes():
        if isinstance(n, BDDTerminalNode):
            continue
        if n.low is n.high:
            errs.append('live node %r has identical children' % (n.var,))
        k = (n.var, id(n.low), id(n.high))
        if k in triples and triples[k] is not n:
            errs.append('two live nodes share (var, low, high) for variable %r' % (n.var,))
        triples[k] = n
        if n not in n.low.f_low or n not in n.high.f_high:
            errs.append('live node %r is missing from a parent set of its child' % (n.var,))
    return errs


def check_history_case(case):
    """case = (seed, steps, nvars): random build/combine/drop/gc history over a
    pool of OBDDs on one ordering; after every step: == iff same truth table
    iff identical root, and the live-node scan."""
    from pyModelChecking.BDD import OBDD
    seed, steps, nvars = case
    rng = random.Random(seed)
    # (odd seeds use multi-character names: one-character strings are singletons in CPython, longer ones are not,
    #  and the table must compare variable names by VALUE)
    vs = (['a', 'b', 'c', 'd'] if seed % 2 == 0 else ['va', 'vb', 'vc', 'vd'])[:nvars]
    order = list(vs)
    rng.shuffle(order)
    pool = []       # (obdd, table)
    fails = []
    log = []

    def rebuilt(node, memo):
        # the same diagram, bottom-up through the public node constructor, with EQUAL BUT DISTINCT str objects as names
        from pyModelChecking.BDD import BDDNode
        if id(node) in memo:
            return memo[id(node)]
        if not hasattr(node, 'var'):
            r = BDDNode(node.value)
        else:
            name = (node.var + '_')[:-1]
            r = BDDNode(name, rebuilt(node.low, memo), rebuilt(node.high, memo))
        memo[id(node)] = r
        return r

    def bad(kind, what):
        fails.append((kind, '%s [seed %d, ordering %r, after %d steps: %s]' % (what, seed, order, len(log), ' ; '.join(log[-6:]))))
    for step in range(steps):
        k = rng.random()
        if k < 0.3 or len(pool) < 2:
            e = rand_expr(rng, vs, rng.randint(0, 3))
            o = OBDD(text(e, rng.randint(0, 1)), list(order))
            pool.append((o, table(e, order)))
            log.append('build %s' % text(e))
        elif k < 0.6:
            (x, tx), (y, ty) = rng.choice(pool), rng.choice(pool)
            op = rng.choice('&|^')
            if op == '&':
                o, t = x & y, tuple(p and q for p, q in zip(tx, ty))
            elif op == '|':
                o, t = x | y, tuple(p or q for p, q in zip(tx, ty))
            else:
                o, t = x ^ y, tuple(p != q for p, q in zip(tx, ty))
            pool.append((o, t))
            log.append('combine %s' % op)
        elif k < 0.7:
            x, tx = rng.choice(pool)
            pool.append((~x, tuple(not p for p in tx)))
            log.append('invert')
        elif k < 0.8:
            x, tx = rng.choice(pool)
            v, b = rng.choice(order), rng.choice([False, True])
            asg = list(assignments(order))
            idx = {tuple(sorted(a.items())): i for i, a in enumerate(asg)}
            t = tuple(tx[idx[tuple(sorted(dict(a, **{v: b}).items()))]] for a in asg)
            pool.append((x.restrict(v, b), t))
            log.append('restrict %s=%s' % (v, b))
        elif k < 0.86:
            x, tx = rng.choice(pool)
            pool.append((OBDD(rebuilt(x.root, {}), list(order)), tx))
            log.append('rebuild through BDDNode(var, low, high) with fresh name objects')
        elif k < 0.93:
            for _ in range(rng.randint(1, max(1, len(pool) // 2))):
                if pool:
                    pool.pop(rng.randrange(len(pool)))
            log.append('drop')
        else:
            gc.collect()
            log.append('gc')
        if len(pool) > 14:
            del pool[:4]
        # invariants
        for i in range(len(pool)):
            oi, ti = pool[i]
            if node_table(oi.root, order) != ti:
                bad('history:den', 'a pooled OBDD no longer denotes its function')
                return fails
            se = shape_errors(oi.root, order)
            if se:
                bad('history:shape', se[0])
                return fails
        last = len(pool) - 1
        if last >= 0:
            ol, tl = pool[last]
            for i in range(len(pool)):
                oi, ti = pool[i]
                same = ti == tl
                if (oi == ol) != same or (oi.root is ol.root) != same:
                    bad('canonical:eq_iff_same_function',
                        'OBDDs with %s truth tables: == is %r, identical root %r' % ('equal' if same else 'different', oi == ol, oi.root is ol.root))
                    return fails
        errs = live_scan()
        if errs:
            bad('unique_table:' + ('duplicate' if 'share' in errs[0] else 'reduced' if 'identical' in errs[0] else 'parents'), errs[0])
            return fails
    return fails


# ----------------------------------------------------------------------------
# C18

def check_notation_case(case):
    """case = (argument order, expression)"""
    from pyModelChecking.BDD import OBDD
    args, e = case
    fails = []

    def bad(kind, what):
        fails.append((kind, '%s [args %r, e=%s]' % (what, args, text(e))))
    for style in (0, 1, 2, 3):
        src = text(e, style) if style < 2 else text_min(e, style - 2)
        lam = call(OBDD, 'lambda %s: %s' % (', '.join(args), src))
        exp = call(OBDD, src, list(args))
        if exp[0] != 'ok':
            bad('expr:raises', 'OBDD(%r, %r) raised %s (%s)' % (src, args, exp[1], exp[2]))
            continue
        if node_table(exp[1].root, args) != table(e, args):
            bad('expr:ensures:den', 'OBDD(%r, %r) denotes the wrong function' % (src, args))
        if lam[0] != 'ok':
            bad('lambda:raises', 'OBDD(%r) raised %s (%s)' % ('lambda %s: %s' % (', '.join(args), src), lam[1], lam[2]))
            continue
        if not (lam[1] == exp[1]) or lam[1].root is not exp[1].root:
            bad('lambda:ensures:equals_expr', 'lambda form and expression form differ for %r' % (src,))
        if style in (1, 3):
            amp = call(OBDD, text(e, 0), list(args))
            if amp[0] == 'ok' and not (amp[1] == exp[1]):
                bad('synonyms:and_or_not', 'and/or/not form differs from &,|,~ form')
    o = call(OBDD, text(e), list(args))
    if o[0] == 'ok':
        o = o[1]
        r = call(OBDD, str(o.root), o.ordering)
        if r[0] != 'ok' or not (r[1] == o):
            bad('print:roundtrip:root', 'OBDD(str(o.root)=%r, o.ordering) %s' % (str(o.root), 'raised %s' % (r[1],) if r[0] != 'ok' else '!= o'))
        r = call(OBDD, str(o))
        if r[0] != 'ok' or not (r[1] == o):
            bad('print:roundtrip:obdd', 'OBDD(str(o)=%r) %s' % (str(o), 'raised %s (%s)' % (r[1], r[2]) if r[0] != 'ok' else '!= o'))
    used = sorted(vars_of(e))
    if used:
        short = [a for a in args if a != used[0]]
        for label, fn in (('expression', lambda: OBDD(text(e), short)),
                          ('lambda', lambda: OBDD('lambda %s: %s' % (', '.join(short), text(e))))):
            r = call(fn)
            if r[0] == 'ok' or r[1] != 'RuntimeError':
                bad('missing_variable:raises', '%s form with %r missing gave %r' % (label, used[0], r[:2]))
    return fails


BAD_SYNTAX = ['-a', 'a + b', 'a - b', 'a * b', 'a < b', 'a == b', 'a if b else c', 'f(a)', 'a.b', '2', 'a & 2', '"a"', '[a]',
              'a ** b', 'a // b', '+a', 'a >> b', 'lambda a: -a', 'lambda a, b: a + b', 'lambda a: 3', 'a &', '(a', 'a b',
              'not', 'a @ b', 'a % b', 'a, b', '{a}', 'None', 'a[0]', 'a and 5', 'lambda a: a if a else a']


def check_syntax_case(src):
    """non-Boolean syntax raises SyntaxError"""
    from pyModelChecking.BDD import OBDD
    fails = []
    r = call(OBDD, src) if src.startswith('lambda') else call(OBDD, src, ['a', 'b', 'c'])
    if r[0] == 'ok' or r[1] != 'SyntaxError':
        fails.append(('syntax:raises:SyntaxError', 'non-Boolean syntax %r gave %r' % (src, r[:3])))
    return fails
