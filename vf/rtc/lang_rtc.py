"""Run-time (bounded) contracts of the language layer: rewriting (C05),
constructors/casts/guards (C08), eq/hash/clone (C11), print/parse (C09)."""
import itertools

from ..spec import sem, trees, gen
from .mc_rtc import lang, call

_KS = {}


def _universal():
    """4 states carrying the 4 valuations of p,q, complete graph: every
    infinite word over 2^{p,q} is a path."""
    if 'U' not in _KS:
        S = [0, 1, 2, 3]
        _KS['U'] = sem.SpecK(S, {s: S for s in S},
                             {0: [], 1: ['p'], 2: ['q'], 3: ['p', 'q']})
    return _KS['U']


def _smalls():
    if 'S' not in _KS:
        ks = list(gen.all_kripke_data(1)) + list(gen.all_kripke_data(2))
        out = []
        for S, R, L in ks:
            succ = {}
            for a, b in R:
                succ.setdefault(a, set()).add(b)
            out.append(sem.SpecK(S, succ, L))
        import random
        rng = random.Random(5)
        rels = list(gen.total_relations(3))
        labs = list(gen.labellings(3))
        for _ in range(40):
            R = rng.choice(rels)
            succ = {}
            for a, b in R:
                succ.setdefault(a, set()).add(b)
            out.append(sem.SpecK([0, 1, 2], succ, rng.choice(labs)))
        _KS['S'] = out
    return _KS['S']


def has_quantifier(t):
    if t[0] in ('A', 'E'):
        return True
    if t[0] in ('ap', 'true', 'false'):
        return False
    return any(has_quantifier(c) for c in t[1:])


def equivalent(t1, t2):
    """None if t1 and t2 agree on every structure of the scope, else a
    distinguishing (SpecK, state/None)"""
    if sem.is_state_formula(t1) and sem.is_state_formula(t2):
        ks = _smalls() if (has_quantifier(t1) or has_quantifier(t2)) else [_universal()]
        for K in ks:
            if sem.sat(K, t1) != sem.sat(K, t2):
                return K
        return None
    xor = ('or', ('and', t1, ('not', t2)), ('and', ('not', t1), t2))
    ks = [_universal()]
    if has_quantifier(t1) or has_quantifier(t2):
        ks = ks + _smalls()
    for K in ks:
        if sem.sat(K, ('E', xor)):
            return K
    return None


def _kstr(K):
    return 'K(S=%r,R=%r,L=%r)' % (list(K.states), sorted((s, d) for s in K.states for d in K.succ[s]),
                                  {s: sorted(K.lab[s]) for s in K.states})


RESTRICTED = {'CTL': trees.restricted_CTL, 'LTL': trees.restricted_LTL,
              'CTLS': trees.restricted_CTLS}


def check_rewrite_case(case):
    """case = (logic, [tree...])"""
    logic, ts = case
    L = lang(logic)
    fails = []
    keys = set()
    for t in ts:
        def bad(kind, what):
            fails.append((kind, '%s for %s formula %s' % (what, logic, trees.to_text(t)),
                          {'logic': logic, 'root': t[0]}, (logic, [t])))
        f = trees.build(L, t)
        keys.add((logic, t))
        r = call(f.get_equivalent_restricted_formula)
        if r[0] != 'ok':
            bad('restricted:raises', 'get_equivalent_restricted_formula raised %s (%s)' % (r[1], r[2]))
        else:
            rt = trees.tree(r[1])
            is_ctl_path = logic == 'CTL' and trees.wf_CTL_path(t)
            if not is_ctl_path and not RESTRICTED[logic](rt):
                bad('restricted:ensures:alphabet', 'result %s is outside the restricted alphabet' % (rt,))
            if trees.langs_in(r[1]) != {logic}:
                bad('restricted:ensures:lang', 'result %s contains nodes of %r' % (rt, trees.langs_in(r[1])))
            d = equivalent(t, rt)
            if d is not None:
                bad('restricted:ensures:sem', 'result %s is not equivalent (distinguished on %s)'
                    % (trees.to_text(rt) if trees.wf_CTLS_path(rt) else rt, _kstr(d)))
            if trees.tree(f) != t:
                bad('restricted:frame', 'the receiver was modified')
        from pyModelChecking.language import LNot
        if logic == 'LTL' and t[0] == 'A':
            # 'not A g' is not an LTL formula: there is nothing LNot could
            # return within the logic (C08 requires the TypeError it raises)
            continue
        n = call(LNot, f)
        if n[0] != 'ok':
            bad('LNot:raises', 'LNot raised %s (%s)' % (n[1], n[2]))
        else:
            nt = trees.tree(n[1])
            if trees.leading_nots(nt) > 1:
                bad('LNot:ensures:leading_negations', 'LNot result %s begins with two negations' % (nt,))
            d = equivalent(('not', t), nt)
            if d is not None:
                bad('LNot:ensures:sem', 'LNot result %s is not equivalent to the negation (distinguished on %s)' % (nt, _kstr(d)))
            if not trees.langs_in(n[1]) <= {logic}:
                bad('LNot:ensures:lang', 'LNot result contains nodes of %r' % (trees.langs_in(n[1]),))
    return {'fails': fails, 'n': 2 * len(ts), 'keys': keys}


# ----------------------------------------------------------------------------
# C08

LANGS = ('PL', 'CTL', 'LTL', 'CTLS')


def _raw_build(L, t, leaf_objects):
    """Bottom-up construction through L's constructors; operator classes that
    L does not define are taken from CTLS (the union language) so that the
    parent's constructor is the one that has to reject them.  Leaves are given
    as str/bool unless leaf_objects."""
    import pyModelChecking.CTLS as CTLS
    tag = t[0]
    if tag == 'true':
        return L.Bool(True) if leaf_objects else True
    if tag == 'false':
        return L.Bool(False) if leaf_objects else False
    if tag == 'ap':
        return L.AtomicProposition(t[1]) if leaf_objects else t[1]
    cls = getattr(L, trees.TAG2NAME[tag], None) or getattr(CTLS, trees.TAG2NAME[tag])
    return cls(*[_raw_build(L, c, leaf_objects) for c in t[1:]])


def _defined_in(L, t):
    if t[0] in ('true', 'false', 'ap'):
        return True
    return hasattr(L, trees.TAG2NAME[t[0]]) and all(_defined_in(L, c) for c in t[1:])


def check_construct_case(case):
    """case = (mode, target language, source language, tree)
    modes: 'construct' (everything through L's constructors, str/bool leaves),
    'mixed' (root operator of L applied to operands built in M),
    'cast' (built in M, cast_to(L)), 'modelcheck' (built in M, L.modelcheck)."""
    mode, Ln, Mn, t = case
    L, M = lang(Ln), lang(Mn)
    fails = []

    def bad(kind, what, clause):
        if not _all_arity_ok(t):
            clause = 'arity'      # everything observed on an ill-arity tree is attributed to the missing arity check
        fails.append((kind, '%s [%s %s<-%s %s]' % (what, mode, Ln, Mn, t),
                      {'mode': mode, 'target': Ln, 'clause': clause}))

    def classify(tr):
        if not _all_arity_ok(tr):
            return 'arity'
        return 'class'

    if mode == 'construct':
        r = call(_raw_build, L, t, t[0] in ('ap', 'true', 'false'))
        wf = trees.wf_any(Ln, t)
        if r[0] == 'ok':
            rt = trees.tree(r[1])
            if r[1].__class__.__module__.split('.')[1] != Ln:
                pass    # root class borrowed from CTLS because L lacks it: then the object is not claimed to be an L formula
            elif not trees.wf_any(Ln, rt):
                bad('constructor:ensures:wf', 'constructed %s object %r is not a %s formula' % (Ln, _s(r[1]), Ln), classify(rt))
            elif rt != t:
                bad('constructor:ensures:tree', 'constructed tree %s differs from the arguments' % (rt,), 'tree')
        else:
            if r[1] != 'TypeError':
                bad('constructor:raises:class', 'raised %s instead of TypeError (%s)' % (r[1], r[2]), 'exception-class')
            elif wf and _defined_in(L, t):
                bad('constructor:raises:iff', 'raised TypeError for a well-formed %s formula (%s)' % (Ln, r[2]), 'rejects-wf')
    elif mode == 'mixed':
        if t[0] in ('true', 'false', 'ap') or not hasattr(L, trees.TAG2NAME[t[0]]):
            return fails
        kids = [call(_raw_build, M, c, True) for c in t[1:]]
        if any(k[0] != 'ok' for k in kids):
            return fails
        r = call(getattr(L, trees.TAG2NAME[t[0]]), *[k[1] for k in kids])
        if r[0] == 'ok':
            rt = trees.tree(r[1])
            if not trees.wf_any(Ln, rt):
                bad('constructor:ensures:wf', 'constructed %s object %r (operands built in %s) is not a %s formula'
                    % (Ln, _s(r[1]), Mn, Ln), classify(rt))
            elif rt != t:
                bad('constructor:ensures:tree', 'constructed tree %s differs from the arguments' % (rt,), 'tree')
        elif r[1] != 'TypeError':
            bad('constructor:raises:class', 'raised %s instead of TypeError (%s)' % (r[1], r[2]), 'exception-class')
    elif mode == 'cast':
        f = call(_raw_build, M, t, True)
        if f[0] != 'ok' or not _defined_in(M, t):
            return fails
        r = call(f[1].cast_to, L)
        if r[0] == 'ok':
            rt = trees.tree(r[1])
            if rt != trees.tree(f[1]):
                bad('cast_to:ensures:tree', 'cast result %s has a different structure' % (rt,), 'tree')
            if not trees.wf_any(Ln, rt):
                bad('cast_to:ensures:wf', 'cast result %r is not a %s formula' % (_s(r[1]), Ln), classify(rt))
            if trees.langs_in(r[1]) != {Ln}:
                bad('cast_to:ensures:lang', 'cast result contains nodes of %r' % (trees.langs_in(r[1]),), 'lang')
            if trees.tree(f[1]) != t and _all_arity_ok(t):
                bad('cast_to:frame', 'the receiver was modified', 'frame')
        elif r[1] != 'TypeError':
            bad('cast_to:raises:class', 'raised %s instead of TypeError (%s)' % (r[1], r[2]), 'exception-class')
    elif mode == 'modelcheck':
        from pyModelChecking import Kripke
        K = Kripke(R=[(0, 1), (1, 0), (1, 1)], L={0: ['p']})
        f = call(_raw_build, M, t, True)
        if f[0] != 'ok' or not _defined_in(M, t):
            return fails
        r = call(L.modelcheck, K, f[1])
        ft = trees.tree(f[1])
        if r[0] == 'ok':
            if not trees.wf_state(Ln, ft):
                bad('modelcheck:raises:guard', '%s.modelcheck returned %r for %r, which is not a %s state formula'
                    % (Ln, r[1], _s(f[1]), Ln), classify(ft))
        elif r[1] != 'TypeError':
            bad('modelcheck:raises:class', '%s.modelcheck raised %s instead of TypeError (%s)' % (Ln, r[1], r[2]), 'exception-class')
        elif trees.wf_state(Ln, ft) and Mn == Ln:
            bad('modelcheck:raises:iff', '%s.modelcheck raised TypeError for the well-formed state formula %r (%s)'
                % (Ln, _s(f[1]), r[2]), 'rejects-wf')
    return fails


def _s(obj):
    try:
        return str(obj)
    except Exception:
        return '<unprintable %s>' % (trees.tree(obj),)


def _all_arity_ok(t):
    return trees._arity_ok(t) and (t[0] in ('ap', 'true', 'false') or all(_all_arity_ok(c) for c in t[1:]))


def check_guard_case(case):
    """non-formula / non-Kripke arguments to the modelcheck functions and
    non-formula operands to constructors; case = (language, what)"""
    Ln, what = case
    L = lang(Ln)
    from pyModelChecking import Kripke
    from pyModelChecking.graph import DiGraph
    K = Kripke(R=[(0, 0)], L={0: ['p']})
    fails = []

    def expect_type_error(label, fn, *a):
        r = call(fn, *a)
        if r[0] == 'ok':
            fails.append(('guard:raises:TypeError', '%s returned %r instead of raising TypeError' % (label, r[1]),
                          {'target': Ln, 'clause': 'guard', 'what': what}))
        elif r[1] != 'TypeError':
            fails.append(('guard:raises:class', '%s raised %s instead of TypeError (%s)' % (label, r[1], r[2]),
                          {'target': Ln, 'clause': 'exception-class', 'what': what}))
    junk = {'int': 3, 'none': None, 'list': ['p'], 'float': 1.5, 'object': object(), 'tuple': ('p', 'q')}
    if what in junk:
        j = junk[what]
        if hasattr(L, 'modelcheck'):
            expect_type_error('%s.modelcheck(K, %r)' % (Ln, j), L.modelcheck, K, j)
        for name in ('Not', 'Or', 'X', 'U', 'A', 'E', 'Imply'):
            if hasattr(L, name):
                args = [j] if name in ('Not', 'X', 'A', 'E') else [j, 'p']
                expect_type_error('%s.%s(%s)' % (Ln, name, ', '.join(map(repr, args))), getattr(L, name), *args)
        expect_type_error('%s.AtomicProposition(%r)' % (Ln, j), L.AtomicProposition, j)
        expect_type_error('%s.Bool(%r)' % (Ln, j), L.Bool, j)
    elif what == 'non-kripke' and hasattr(L, 'modelcheck'):
        good = {'CTL': 'A G p', 'LTL': 'A G p', 'CTLS': 'A G p'}[Ln]
        for nk in (None, 3, DiGraph(E=[(0, 0)]), {'S': [0]}, 'K'):
            expect_type_error('%s.modelcheck(%r, %r)' % (Ln, nk, good), L.modelcheck, nk, good)
            expect_type_error('%s.modelcheck(%r, obj)' % (Ln, nk), L.modelcheck, nk, L.Parser()(good))
    return fails


# ----------------------------------------------------------------------------
# C11 / C09

def _build_variants(L, t):
    """the same tree built with object leaves and with str/bool leaves"""
    return [trees.build(L, t), _raw_build(L, t, t[0] in ('ap', 'true', 'false'))]


def check_eq_case(case):
    """case = (logic, pool of trees, lo, hi): rows lo..hi-1 of the pair matrix,
    plus per-formula clauses (reflexive, hash, clone, dict/set) for those rows"""
    logic, pool, lo, hi = case
    L = lang(logic)
    objs = [trees.build(L, t) for t in pool]
    fails = []
    keys = set()

    def bad(kind, what, i, j=None):
        sub = [pool[i]] if j is None else [pool[i], pool[j]]
        fails.append((kind, what, {'logic': logic}, (logic, sub, 0, len(sub))))
    for i in range(lo, hi):
        f, t = objs[i], pool[i]
        alt = _raw_build(L, t, t[0] in ('ap', 'true', 'false'))
        if not (f == f):
            bad('__eq__:reflexive', '%s formula %s is not equal to itself' % (logic, trees.to_text(t)), i)
        if not (f == alt) or not (alt == f) or hash(f) != hash(alt):
            bad('__eq__:same_tree', 'the same tree %s built from strings and from objects compares unequal or hashes differently' % (t,), i)
        c = call(f.clone)
        if c[0] != 'ok':
            bad('clone:raises', 'clone of %s raised %s' % (trees.to_text(t), c[1]), i)
        else:
            g = c[1]
            if not (g == f and f == g) or trees.tree(g) != t or g.__class__ is not f.__class__:
                bad('clone:ensures:equal', 'clone of %s is %s' % (trees.to_text(t), trees.tree(g)), i)
            if hash(g) != hash(f):
                bad('clone:ensures:hash', 'clone of %s hashes differently' % (trees.to_text(t),), i)
            if set(id(n) for n in trees.all_nodes(g)) & set(id(n) for n in trees.all_nodes(f)):
                bad('clone:fresh', 'clone of %s shares a node object with the original' % (trees.to_text(t),), i)
            if any(id(getattr(n, '_subformula', None)) == id(getattr(m, '_subformula', 0))
                   for n in trees.all_nodes(g) for m in trees.all_nodes(f) if hasattr(n, '_subformula')):
                bad('clone:fresh', 'clone of %s shares a child list with the original' % (trees.to_text(t),), i)
        for j in range(len(pool)):
            g, u = objs[j], pool[j]
            e = (f == g)
            keys.add((logic, i, j))
            if e != (t == u):
                bad('__eq__:iff_same_tree', '%s == %s is %r (trees %s)' % (trees.to_text(t), trees.to_text(u), e,
                                                                          'equal' if t == u else 'differ'), i, j)
            if e != (g == f):
                bad('__eq__:symmetric', '%s == %s is %r but the converse is %r' % (trees.to_text(t), trees.to_text(u), e, g == f), i, j)
            if e and hash(f) != hash(g):
                bad('__hash__:ensures', 'equal formulas %s and %s hash differently' % (trees.to_text(t), trees.to_text(u)), i, j)
            if e != ((f != g) is False):
                bad('__eq__:ne_consistent', '!= disagrees with == on %s, %s' % (trees.to_text(t), trees.to_text(u)), i, j)
        d = {f: i}
        s = {f}
        for j in range(len(pool)):
            if (objs[j] in d) != (pool[j] == t) or (objs[j] in s) != (pool[j] == t):
                bad('__hash__:one_key', 'dict/set membership of %s against key %s is wrong' % (trees.to_text(pool[j]), trees.to_text(t)), i, j)
    return {'fails': fails, 'n': (hi - lo) * len(pool), 'keys': keys}


def check_bool_eq_case(case):
    logic = case
    L = lang(logic)
    fails = []
    for b in (True, False):
        B = L.Bool(b)
        for label, v in (('Bool(b) == b', B == b), ('b == Bool(b)', b == B),
                         ('not (Bool(b) == (not b))', not (B == (not b))), ('not ((not b) == Bool(b))', not ((not b) == B)),
                         ('Bool(b) == Bool(b)', B == L.Bool(b)), ('hash', hash(B) == hash(L.Bool(b))),
                         ('Bool(b) != Bool(not b)', not (B == L.Bool(not b))),
                         ('Bool(b) != atom', not (B == L.AtomicProposition('p')) and not (L.AtomicProposition('p') == B))):
            if v is not True:
                fails.append(('Bool.__eq__', '%s fails for %s.Bool(%r)' % (label, logic, b), {'logic': logic}))
    return fails


def check_triples_case(case):
    """transitivity on sampled triples: case = (logic, [t1,t2,t3] list)"""
    logic, triples = case
    L = lang(logic)
    fails = []
    for a, b, c in triples:
        A, B, C = (trees.build(L, x) for x in (a, b, c))
        if A == B and B == C and not A == C:
            fails.append(('__eq__:transitive', 'not transitive on %s, %s, %s' % (a, b, c), {'logic': logic}, (logic, [(a, b, c)])))
    return {'fails': fails, 'n': len(triples), 'keys': set((logic, t) for t in triples)}


def check_rewrap_case(case):
    """case = (logic, [(t1, t2)]) with the same operator at the root: a formula object that has been hashed and used as a
    key, and whose operands are then replaced through the public wrap_subformulas(operands, Formula), must be
    indistinguishable from a formula built with those operands (==, hash, one key)"""
    logic, pairs = case
    L = lang(logic)
    fails = []
    for a, b in pairs:
        def bad(kind, what):
            fails.append((kind, '%s [%s: %s re-wrapped with the operands of %s]' % (what, logic, a, b), {'logic': logic}, (logic, [(a, b)])))
        f = trees.build(L, a)
        g = trees.build(L, b)
        hash(f)
        box = {f: 1}
        outer = L.Not(f) if hasattr(L, 'Not') and logic == 'PL' else None
        if outer is not None:
            hash(outer)
        r = call(f.wrap_subformulas, [trees.build(L, c) for c in b[1:]], L.Formula)
        if r[0] != 'ok':
            continue        # (the operands are not acceptable to this node: not this leg's business)
        del box
        if not (f == g and g == f):
            bad('rewrap:eq', 'the re-wrapped formula %s != %s' % (f, g))
            continue
        if hash(f) != hash(g):
            bad('__hash__:ensures:after_rewrap', 'equal formulas %s hash differently after wrap_subformulas' % (g,))
        if g not in {f} or f not in {g} or len({f, g}) != 1:
            bad('__hash__:one_key:after_rewrap', '%s and its equal are two keys after wrap_subformulas' % (g,))
        if outer is not None and (hash(outer) != hash(L.Not(g)) or not outer == L.Not(g)):
            bad('__hash__:ensures:after_rewrap', 'a formula containing the re-wrapped node hashes differently from its equal')
    return {'fails': fails, 'n': len(pairs), 'keys': set((logic, p) for p in pairs)}


_PARSERS = {}


def parser_for(logic):
    if logic not in _PARSERS:
        _PARSERS[logic] = lang(logic).Parser()
    return _PARSERS[logic]


def check_roundtrip_case(case):
    """case = (logic, [trees]): Parser()(str(f)) has the same tree and logic.
    CTL formulas are printed in CTL* notation (cast_to(CTLS)) and parsed by the
    CTL* parser, as the property states."""
    logic, ts = case
    L = lang(logic)
    fails = []
    keys = set()
    for t in ts:
        def bad(kind, what):
            fails.append((kind, what, {'logic': logic}, (logic, [t])))
        f = trees.build(L, t)
        keys.add((logic, t))
        if logic == 'CTL':
            import pyModelChecking.CTLS as CTLS
            g = f.cast_to(CTLS)
            text = str(g)
            r = call(parser_for('CTLS'), text)
            target = 'CTLS'
        else:
            text = str(f)
            r = call(parser_for(logic), text)
            target = logic
        if r[0] != 'ok':
            bad('roundtrip:parse_error', 'printed form %r of %s formula %s does not parse: %s' % (text, logic, t, r[1:]))
            continue
        rt = trees.tree(r[1])
        if rt != t:
            bad('roundtrip:tree', 'printed form %r of %s parses to %s' % (text, t, rt))
        if trees.langs_in(r[1]) != {target}:
            bad('roundtrip:lang', 'printed form %r parses to a formula with nodes of %r' % (text, trees.langs_in(r[1])))
        if logic == 'CTL' and all(a in ('p', 'q', 'x_1') for a in trees.atoms_of(t)):
            # beyond the statement (which prints CTL in CTL* notation): where the CTL parser accepts the native CTL print
            # form, it gives the same tree.  Only over lower-case atoms: the native form of AG('Up') is 'AG Up', which the
            # CTL grammar reads as A(G U p), and the statement does not cover that reading
            r2 = call(parser_for('CTL'), str(f))
            if r2[0] == 'ok' and trees.tree(r2[1]) != t:
                bad('roundtrip:tree', 'CTL print form %r of %s parses (CTL parser) to %s' % (str(f), t, trees.tree(r2[1])))
    return {'fails': fails, 'n': len(ts), 'keys': keys}


def check_injective_case(case):
    """case = (logic, pool): different trees never print identically (native
    print form of the logic, which is what memo tables and == use)"""
    logic, pool = case
    L = lang(logic)
    seen = {}
    fails = []
    for t in pool:
        s = str(trees.build(L, t))
        if s in seen and seen[s] != t:
            fails.append(('print:injective', '%s formulas %s and %s both print as %r' % (logic, seen[s], t, s),
                          {'logic': logic}, (logic, [seen[s], t])))
        seen.setdefault(s, t)
    return {'fails': fails, 'n': len(pool), 'keys': set((logic, t) for t in pool)}


# ----------------------------------------------------------------------------
# C10

_QUOTED = None


def outside_alphabet(s):
    """True when `s` contains, outside double-quoted atoms, a character that no terminal of the documented grammars can
    contain (letters, digits, _ ( ) ~ | & the arrow --> and blanks are all there is): such a string is outside every
    documented language however it is split into tokens.  Undecided (False) when the quotes do not pair up."""
    import re
    t = re.sub(r'"(?:[^"\\\n]|\\.)*"', ' ', s)
    if '"' in t:
        return False
    t = t.replace('-->', ' ')
    allowed = set('abcdefghijklmnopqrstuvwxyzABCDEFGHIJKLMNOPQRSTUVWXYZ0123456789_()~|& \t\f\r\n')
    return any(ch not in allowed for ch in t)


def check_parse_case(case):
    """case = (logic, [strings], compare): contract of Parser.__call__ -
    returns a formula of exactly this logic, or raises the package's
    UnexpectedToken/UnexpectedCharacters with 0 <= pos <= len(string); when
    `compare`, acceptance and tree are compared with the documented grammar
    (vf/spec/docgrammar.py)."""
    from ..spec import docgrammar
    import pyModelChecking.parser as P
    logic, strings, compare = case
    fails = []
    keys = set()
    p = parser_for(logic)
    for s in strings:
        def bad(kind, what):
            fails.append((kind, '%s on %s.Parser()(%r)' % (what, logic, s), {'logic': logic}, (logic, [s], compare)))
        try:
            r = ('ok', p(s))
        except (P.UnexpectedToken, P.UnexpectedCharacters) as e:
            r = ('perr', e)
        except Exception as e:
            r = ('other', e)
        doc = None
        if compare:
            try:
                doc = docgrammar.parse(logic, s)
            except docgrammar.LexError:
                doc = 'lex'
        if r[0] == 'ok':
            keys.add((logic, s))
            f = r[1]
            ok_obj = hasattr(f, '_subformula') or hasattr(f, 'name') or hasattr(f, '_value')
            if not ok_obj:
                bad('parser:ensures:formula', 'returned %r, not a formula' % (f,))
                continue
            rt = trees.tree(f)
            if trees.langs_in(f) != {logic}:
                bad('parser:ensures:lang', 'returned a formula with nodes of %r' % (trees.langs_in(f),))
            if not trees.wf_any(logic, rt):
                bad('parser:ensures:wf', 'returned %s, not a %s formula' % (rt, logic))
            if compare is None and outside_alphabet(s):
                bad('parser:accepts_excluded', 'accepted (as %s) a string with a character no terminal of the documented grammar contains' % (rt,))
            if compare:
                if doc == 'lex' or not doc:
                    bad('parser:accepts_excluded', 'accepted (as %s) a string the documented grammar excludes' % (rt,))
                elif rt not in doc:
                    bad('parser:ensures:tree', 'parsed to %s, the documented grammar gives %s' % (rt, sorted(doc)))
        elif r[0] == 'perr':
            e = r[1]
            if not isinstance(e.pos, int) or not (0 <= e.pos <= len(s)):
                bad('parser:raises:pos', 'error position %r outside [0,%d]' % (e.pos, len(s)))
            if e.string != s:
                bad('parser:raises:string', 'error carries string %r' % (e.string,))
            # rejecting a documented string is not a C10 violation (C09/C04 cover
            # print->parse and text-vs-object); it is only counted
        else:
            bad('parser:raises:class', 'raised %s (%s)' % (type(r[1]).__name__, str(r[1])[:120]))
    return {'fails': fails, 'n': len(strings), 'keys': keys}
