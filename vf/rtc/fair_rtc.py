"""Run-time (bounded) contracts for fairness (C15), with attribution of the
recorded findings through *defect models* (what the known-defective code is
expected to return), so that any other deviation is still a violation."""
import itertools

from ..spec import sem, trees, gen
from .mc_rtc import lang, call, deep_snapshot


def _sccs(SK):
    reach = {}
    for s in SK.states:
        R = {s}
        todo = [s]
        while todo:
            x = todo.pop()
            for d in SK.succ[x]:
                if d not in R:
                    R.add(d)
                    todo.append(d)
        reach[s] = R
    comps = []
    seen = set()
    for s in SK.states:
        if s in seen:
            continue
        C = frozenset(t for t in reach[s] if s in reach[t])
        seen |= C
        comps.append(C)
    return comps, reach


def defect_model_fair_states(SK, F):
    """KF-C15-1: is_a_fair_SCC returns False when `len(scc) == 1 or v not in
    next(v)` for the first listed node v (must be `and`).  Set of results the
    defective code may return (the first listed node is order dependent)."""
    comps, reach = _sccs(SK)
    opts = []
    for C in comps:
        eligible = len(C) > 1 and all(set(C) & set(P) for P in F)
        if not eligible:
            opts.append([False])
            continue
        loops = [v in SK.succ[v] for v in C]
        o = []
        if any(loops):
            o.append(True)
        if not all(loops):
            o.append(False)
        opts.append(o)
    out = set()
    for choice in itertools.product(*opts):
        T = set()
        for C, acc in zip(comps, choice):
            if acc:
                T |= C
        out.add(frozenset(s for s in SK.states if reach[s] & T))
    return out


def check_fair_states_case(case):
    """case = (kdata, F)"""
    kdata, F = case
    fails = []
    K = gen.mk_kripke(kdata)
    SK = sem.SpecK.of(K)
    Fs = [set(P) for P in F]
    snap = deep_snapshot(K)
    r = call(K.get_fair_states, [set(P) for P in Fs])
    exp = set(sem.fair_states(SK, Fs))
    desc = '%s.get_fair_states(%r)' % (gen.ktext(kdata), Fs)
    if r[0] != 'ok':
        fails.append(('get_fair_states:raises', '%s raised %s (%s)' % (desc, r[1], r[2]), {'defect_model': None}))
    else:
        if type(r[1]) is not set:
            fails.append(('get_fair_states:ensures:is_set', '%s returned a %s' % (desc, type(r[1]).__name__), {'defect_model': None}))
        elif r[1] != exp:
            dm = 'is_a_fair_SCC:or-for-and' if frozenset(r[1]) in defect_model_fair_states(SK, Fs) else None
            fails.append(('get_fair_states:ensures:exact', '%s returned %r, states with a fair path are %r' % (desc, r[1], exp),
                          {'defect_model': dm}))
        if id(r[1]) in set(id(x) for x in K._next.values()) | set(id(x) for x in K._labels.values()):
            fails.append(('get_fair_states:fresh', '%s returned an internal set' % desc, {'defect_model': None}))
    if deep_snapshot(K) != snap:
        fails.append(('get_fair_states:frame', '%s modified the structure' % desc, {'defect_model': None}))
    return fails


def fair_states_nontrivial(case):
    kdata, F = case
    return len(F) > 0


# --- defect model of the fair CTL reduction (documented CGP reduction with the
# --- unsound EG case), at the level of formula tuples

def _nf(t, fair):
    """spec-level transcription of get_equivalent_non_fair_formula for CTL"""
    tag = t[0]
    if tag in ('ap', 'true', 'false'):
        return ('and', t, fair)
    if tag in ('not', 'and', 'or', 'imply'):
        return (tag,) + tuple(_nf(c, fair) for c in t[1:])
    q, p = tag, t[1]
    op = p[0]
    s0 = _nf(p[1], fair)
    n0 = ('not', s0)
    TRUE = ('true',)
    if q == 'E':
        if op == 'X':
            return ('E', ('X', ('and', s0, fair)))
        if op == 'F':
            return ('E', ('U', TRUE, ('and', s0, fair)))
        if op == 'G':
            return ('E', ('G', ('and', s0, fair)))
        s1 = _nf(p[2], fair)
        n1 = ('not', s1)
        if op == 'U':
            return ('E', ('U', s0, ('and', s1, fair)))
        return ('or', ('E', ('U', s1, ('and', ('not', ('or', n0, n1)), fair))), ('E', ('G', ('and', s1, fair))))
    if op == 'X':
        return ('not', ('E', ('X', ('and', n0, fair))))
    if op == 'F':
        return ('not', ('E', ('G', ('and', n0, fair))))
    if op == 'G':
        return ('not', ('E', ('U', TRUE, ('and', n0, fair))))
    s1 = _nf(p[2], fair)
    n1 = ('not', s1)
    if op == 'U':
        return ('not', ('or', ('E', ('U', n1, ('and', ('not', ('or', s0, s1)), fair))), ('E', ('G', ('and', n1, fair)))))
    return ('not', ('E', ('U', n0, ('and', n1, fair))))


EG_CLASS = {('E', 'G'), ('E', 'R'), ('A', 'F'), ('A', 'U')}


def uses_unsound_reduction(t):
    if t[0] in ('ap', 'true', 'false'):
        return False
    if t[0] in ('A', 'E') and len(t) == 2 and (t[0], t[1][0]) in EG_CLASS:
        return True
    return any(uses_unsound_reduction(c) for c in t[1:])


def has_quantifier(t):
    if t[0] in ('A', 'E'):
        return True
    if t[0] in ('ap', 'true', 'false'):
        return False
    return any(has_quantifier(c) for c in t[1:])


def is_ctl(t):
    return trees.wf_CTL_state(t)


def check_fair_mc_case(case):
    """case = (logic, kdata, F, [trees])"""
    logic, kdata, F, ts = case
    L = lang(logic)
    fails = []
    keys = set()
    K = gen.mk_kripke(kdata)
    SK = sem.SpecK.of(K)
    Fs = None if F is None else [set(P) for P in F]
    true_fair = set(SK.states) if Fs is None else set(sem.fair_states(SK, Fs))
    obs = call(gen.mk_kripke(kdata).get_fair_states, [set(P) for P in Fs]) if Fs is not None else ('ok', set(SK.states))
    obs_fair = set(obs[1]) if obs[0] == 'ok' else None
    fair_label = '#fair'
    Kplus = None
    if obs_fair is not None:
        Kplus = sem.SpecK(SK.states, SK.succ, {s: set(SK.lab[s]) | ({fair_label} if s in obs_fair else set()) for s in SK.states})
    snap = deep_snapshot(K)
    for t in ts:
        def bad(kind, what, dm):
            fails.append((kind, '%s: %s.modelcheck(%s, %s, F=%r)' % (what, logic, gen.ktext(kdata), trees.to_text(t), Fs),
                          {'logic': logic, 'defect_model': dm}, (logic, kdata, F, [t])))
        f = trees.build(L, t)
        r = call(L.modelcheck, K, f, F=None if Fs is None else [set(P) for P in Fs])
        keys.add((logic, repr(kdata), repr(F), t))
        if deep_snapshot(K) != snap:
            bad('fair:frame:kripke', 'the Kripke structure was modified', None)
            K = gen.mk_kripke(kdata)
            snap = deep_snapshot(K)
        if Fs is None:
            r0 = call(L.modelcheck, K, f)
            if r[:2] != r0[:2]:
                bad('fair:F=None', 'F=None gives %r, no F gives %r' % (r[1:], r0[1:]), None)
            continue
        exp = set(sem.sat(SK, t, Fs))
        if r[0] != 'ok':
            dm = 'LTL.modelcheck-with-F' if logic == 'LTL' else None
            bad('fair:raises', 'raised %s (%s)' % (r[1], r[2]), dm)
            continue
        got = r[1]
        if type(got) is not set or not got <= set(SK.states):
            bad('fair:ensures:set_of_states', 'returned %r' % (got,), None)
            continue
        if got != exp:
            dm = None
            if logic == 'CTL' and Kplus is not None:
                model = set(sem.sat(Kplus, _nf(t, ('ap', fair_label))))
                if got == model and (obs_fair != true_fair or uses_unsound_reduction(t)):
                    dm = 'fair-reduction'
            elif logic == 'CTLS':
                # the CTL* reduction replaces every quantified subformula by a fresh
                # atom and then applies the atom rule (atom and fair) to it, which is
                # wrong for A-formulas at unfair states, and reduces non-CTL path
                # formulas by E(fair and g): any quantifier is within the finding
                if obs_fair != true_fair or has_quantifier(t):
                    dm = 'fair-reduction'
            bad('fair:ensures:exact', 'returned %r, the fair semantics gives %r (states with a fair path: %r, get_fair_states gives %r)'
                % (sorted(got, key=repr), sorted(exp, key=repr), sorted(true_fair, key=repr), obs_fair), dm)
    return {'fails': fails, 'n': len(ts), 'keys': keys}
