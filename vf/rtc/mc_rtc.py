"""Run-time (bounded) contracts of the three modelcheck entry points against the
reference semantics (C01, C02, C03) and the shared clauses used by C04, C06,
C07, C15, C19."""
import copy
import sys

from ..spec import sem, trees, gen


def lang(name):
    import pyModelChecking.CTL as CTL
    import pyModelChecking.LTL as LTL
    import pyModelChecking.CTLS as CTLS
    import pyModelChecking.PL as PL
    return {'CTL': CTL, 'LTL': LTL, 'CTLS': CTLS, 'PL': PL}[name]


class _Null(object):
    def write(self, *_):
        pass

    def flush(self):
        pass


def call(fn, *a, **kw):
    # CTLS.modelcheck prints the exception it translates; keep stdout clean
    old = sys.stdout
    sys.stdout = _Null()
    try:
        return ('ok', fn(*a, **kw))
    except Exception as e:
        return ('raise', type(e).__name__, str(e)[:200])
    finally:
        sys.stdout = old


def deep_snapshot(K):
    return (dict((s, (frozenset(d), id(d))) for s, d in K._next.items()),
            dict((s, (frozenset(l), id(l))) for s, l in K._labels.items()),
            frozenset(K.S0), id(K._next), id(K._labels))


def check_mc_case(case):
    """case = (logic, kdata, [tree...], opts) ; opts: dict with optional
    'certify' (lasso-certify every excluded/included E verdict) and 'text'
    (also pass the formula as text)."""
    logic, kdata, ts, opts = case
    L = lang(logic)
    fails = []
    K = gen.mk_kripke(kdata)
    SK = sem.SpecK.of(K)
    snap = deep_snapshot(K)
    keys = set()
    for t in ts:
        def bad(kind, what, attrs=None):
            a = {'logic': logic}
            a.update(attrs or {})
            fails.append((kind, '%s: %s.modelcheck(Kripke(S=%r,R=%r,L=%r), %s)'
                          % (what, logic, kdata[0], kdata[1], kdata[2], trees.to_text(t)), a,
                          (logic, kdata, [t], opts)))
        f = trees.build(L, t)
        printed = str(f)
        r = call(L.modelcheck, K, f)
        exp = set(sem.sat(SK, t))
        if r[0] != 'ok':
            bad('modelcheck:raises', 'raised %s (%s)' % (r[1], r[2]))
            continue
        got = r[1]
        if 0 < len(exp) < len(SK.states):
            keys.add((logic, repr(kdata), t))
        if not isinstance(got, set):
            bad('modelcheck:ensures:is_set', 'returned a %s' % type(got).__name__)
            got = set(got)
        if not got <= set(SK.states):
            bad('modelcheck:ensures:subset_of_states', 'returned non-states %r' % (got - set(SK.states),))
        if got != exp:
            bad('modelcheck:ensures:exact',
                'returned %r, the semantics gives %r' % (sorted(got, key=repr), sorted(exp, key=repr)))
        if deep_snapshot(K) != snap:
            bad('modelcheck:frame:kripke', 'the Kripke structure was modified')
            K = gen.mk_kripke(kdata)
            snap = deep_snapshot(K)
        if str(f) != printed or trees.tree(f) != t:
            bad('modelcheck:frame:formula', 'the formula object was modified')
        if opts.get('text'):
            r2 = call(L.modelcheck, K, trees.to_text(t))
            if r2[0] != 'ok' or set(r2[1]) != exp:
                bad('modelcheck:ensures:text', 'as text %r gives %r, the semantics gives %r'
                    % (trees.to_text(t), r2[1:], sorted(exp, key=repr)))
        if opts.get('certify') and t[0] in ('A', 'E'):
            # certify with a concrete lasso and the independent evaluator
            g = t[1] if t[0] == 'E' else ('not', t[1])
            witness_for = exp if t[0] == 'E' else set(SK.states) - exp
            gabs = sem._abstract_state_subformulas(SK, g, None, True, {})
            P = sem.Product(SK, sem.core(gabs))
            for s in witness_for:
                l = P.witness_lasso(s)
                if l is None or not sem.is_path(SK, *l) or (l[0] + l[1])[0] != s \
                        or not sem.holds_on_lasso(SK, g, l[0], l[1]):
                    raise AssertionError('oracle self-check failed: no certified lasso for %r at %r on %r'
                                         % (g, s, kdata))
    return {'fails': fails, 'n': len(ts), 'keys': keys}


def mc_case_nontrivial(case):
    return True


def nontrivial_count(logic, kdata, ts):
    """number of (K, f) pairs whose reference answer is neither empty nor
    everything"""
    SK = sem.SpecK(kdata[0], _succ(kdata[1]), kdata[2])
    n = 0
    for t in ts:
        r = sem.sat(SK, t)
        if 0 < len(r) < len(SK.states):
            n += 1
    return n


def _succ(R):
    d = {}
    for a, b in R:
        d.setdefault(a, set()).add(b)
    return d
