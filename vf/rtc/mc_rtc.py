"""Run-time (bounded) contracts of the three modelcheck entry points against the
reference semantics (C01, C02, C03) and the shared clauses used by C04, C06,
C07, C15, C19."""
import copy
import sys

from ..spec import sem, trees, gen


def lang(name):
    import pyModelChecking.CTL as CTL
    import pyModelChecking.LTL as LTL
    import pyModelChecking.CTLS as CTLS
    import pyModelChecking.PL as PL
    return {'CTL': CTL, 'LTL': LTL, 'CTLS': CTLS, 'PL': PL}[name]


class _Null(object):
    def write(self, *_):
        pass

    def flush(self):
        pass


def call(fn, *a, **kw):
    # CTLS.modelcheck prints the exception it translates; keep stdout clean
    old = sys.stdout
    sys.stdout = _Null()
    try:
        return ('ok', fn(*a, **kw))
    except Exception as e:
        return ('raise', type(e).__name__, str(e)[:200])
    finally:
        sys.stdout = old


def deep_snapshot(K):
    return (dict((s, (frozenset(d), id(d))) for s, d in K._next.items()),
            dict((s, (frozenset(l), id(l))) for s, l in K._labels.items()),
            frozenset(K.S0), id(K._next), id(K._labels))


def check_mc_case(case):
    """case = (logic, kdata, [tree...], opts) ; opts: dict with optional
    'certify' (lasso-certify every excluded/included E verdict) and 'text'
    (also pass the formula as text)."""
    logic, kdata, ts, opts = case
    L = lang(logic)
    fails = []
    K = gen.mk_kripke(kdata)
    SK = sem.SpecK.of(K)
    snap = deep_snapshot(K)
    keys = set()
    # the same structure with its labelling installed through the public replace_labelling_function, as a dictionary
    # that also has a key which is not a state (the method stores the dictionary as given; the constructor drops such keys)
    K3 = None
    if isinstance(kdata[2], dict):
        K3 = gen.mk_kripke((kdata[0], kdata[1], {}))
        L3 = dict((s_, set(l_)) for s_, l_ in kdata[2].items() if s_ in SK.states)
        L3['#not-a-state'] = set(a_ for l_ in kdata[2].values() for a_ in l_) | set(['p', 'q'])
        if call(K3.replace_labelling_function, L3)[0] != 'ok':
            K3 = None
    for ti, t in enumerate(ts):
        def bad(kind, what, attrs=None):
            a = {'logic': logic}
            a.update(attrs or {})
            fails.append((kind, '%s: %s.modelcheck(%s, %s)'
                          % (what, logic, gen.ktext(kdata), trees.to_text(t)), a,
                          (logic, kdata, [t], opts)))
        f = trees.build(L, t)
        printed = str(f)
        r = call(L.modelcheck, K, f)
        exp = set(sem.sat(SK, t))
        if r[0] != 'ok':
            bad('modelcheck:raises', 'raised %s (%s)' % (r[1], r[2]))
            continue
        got = r[1]
        if 0 < len(exp) < len(SK.states):
            keys.add((logic, repr(kdata), t))
        if not isinstance(got, set):
            bad('modelcheck:ensures:is_set', 'returned a %s' % type(got).__name__)
            got = set(got)
        if not got <= set(SK.states):
            bad('modelcheck:ensures:subset_of_states', 'returned non-states %r' % (got - set(SK.states),))
        if got != exp:
            bad('modelcheck:ensures:exact',
                'returned %r, the semantics gives %r' % (sorted(got, key=repr), sorted(exp, key=repr)))
        if deep_snapshot(K) != snap:
            bad('modelcheck:frame:kripke', 'the Kripke structure was modified')
            K = gen.mk_kripke(kdata)
            snap = deep_snapshot(K)
        if str(f) != printed or trees.tree(f) != t:
            bad('modelcheck:frame:formula', 'the formula object was modified')
        if K3 is not None and ti % 3 == 0:
            r4 = call(L.modelcheck, K3, trees.build(L, t))
            if r4[0] != 'ok' or set(r4[1]) != exp:
                bad('modelcheck:ensures:replaced_labelling', 'after replace_labelling_function(the same labels + a key that is not a state) gives %r, '
                    'the semantics gives %r' % (r4[1:] if r4[0] != 'ok' else sorted(r4[1], key=repr), sorted(exp, key=repr)))
        if logic == 'CTLS':
            # a structure whose own atoms are named like the reduction's internal markers ('[' + str(Q) + ']' for the
            # quantified sub-formulas Q), on states where Q does NOT hold: the formula does not mention them, so the
            # answer is the same
            qs = [q for q in trees.all_nodes(f) if type(q).__name__ in ('A', 'E')]
            L2 = dict((s_, set(l_)) for s_, l_ in kdata[2].items())
            for q in qs:
                wrong = set(SK.states) - set(sem.sat(SK, trees.tree(q)))
                for s_ in wrong:
                    L2.setdefault(s_, set()).add('[%s]' % (q,))
            if L2 != dict((s_, set(l_)) for s_, l_ in kdata[2].items()):
                kd2 = (kdata[0], kdata[1], L2)
                r3 = call(L.modelcheck, gen.mk_kripke(kd2), trees.build(L, t))
                if r3[0] != 'ok' or set(r3[1]) != exp:
                    bad('modelcheck:ensures:marker_named_atoms', 'on %s (atoms named like internal markers added) gives %r, the semantics gives %r'
                        % (gen.ktext(kd2), r3[1:] if r3[0] != 'ok' else sorted(r3[1], key=repr), sorted(exp, key=repr)))
        if opts.get('text'):
            r2 = call(L.modelcheck, K, trees.to_text(t))
            if r2[0] != 'ok' or set(r2[1]) != exp:
                bad('modelcheck:ensures:text', 'as text %r gives %r, the semantics gives %r'
                    % (trees.to_text(t), r2[1:], sorted(exp, key=repr)))
        if opts.get('certify') and t[0] in ('A', 'E'):
            # certify with a concrete lasso and the independent evaluator
            g = t[1] if t[0] == 'E' else ('not', t[1])
            witness_for = exp if t[0] == 'E' else set(SK.states) - exp
            gabs = sem._abstract_state_subformulas(SK, g, None, True, {})
            P = sem.Product(SK, sem.core(gabs))
            for s in witness_for:
                l = P.witness_lasso(s)
                if l is None or not sem.is_path(SK, *l) or (l[0] + l[1])[0] != s \
                        or not sem.holds_on_lasso(SK, g, l[0], l[1]):
                    raise AssertionError('oracle self-check failed: no certified lasso for %r at %r on %r'
                                         % (g, s, kdata))
    # the caller edits the structure between two calls (a label through the live set labels(s) returns, an edge through
    # add_edge): the second answer is the one of the structure as it is NOW
    if ts and SK.states and isinstance(kdata[2], dict):
        K = gen.mk_kripke(kdata)
        for t in ts[:2]:
            call(L.modelcheck, K, trees.build(L, t))
        st = sorted(SK.states, key=repr)
        s0 = st[0]
        r = call(K.labels, s0)
        if r[0] == 'ok' and isinstance(r[1], set):
            if 'p' in r[1]:
                r[1].discard('p')
            else:
                r[1].add('p')
            call(K.add_edge, st[-1], s0)
            SK2 = sem.SpecK.of(K)
            for t in ts[:2]:
                r5 = call(L.modelcheck, K, trees.build(L, t))
                exp2 = set(sem.sat(SK2, t))
                if r5[0] != 'ok' or set(r5[1]) != exp2:
                    fails.append(('modelcheck:ensures:after_caller_edit',
                                  'after the caller toggled p at %r and added the edge (%r, %r): %s.modelcheck(%s [edited], %s) gives %r, the semantics of the edited structure gives %r'
                                  % (s0, st[-1], s0, logic, gen.ktext(kdata), trees.to_text(t), r5[1:] if r5[0] != 'ok' else sorted(r5[1], key=repr), sorted(exp2, key=repr)),
                                  {'logic': logic}, (logic, kdata, ts[:2], opts)))
    return {'fails': fails, 'n': len(ts), 'keys': keys}


def mc_case_nontrivial(case):
    return True


def nontrivial_count(logic, kdata, ts):
    """number of (K, f) pairs whose reference answer is neither empty nor
    everything"""
    SK = sem.SpecK(kdata[0], _succ(kdata[1]), kdata[2])
    n = 0
    for t in ts:
        r = sem.sat(SK, t)
        if 0 < len(r) < len(SK.states):
            n += 1
    return n


def _succ(R):
    d = {}
    for a, b in R:
        d.setdefault(a, set()).add(b)
    return d


# ----------------------------------------------------------------------------
# C19: fresh set of the structure's own states, heterogeneous states/labels

def check_fresh_case(case):
    """case = (logic, kdata, [trees]) where states/labels may be of any
    hashable type"""
    logic, kdata, ts = case
    L = lang(logic)
    fails = []
    keys = set()
    K = gen.mk_kripke(kdata)
    SK = sem.SpecK.of(K)
    has_none = None in SK.states
    # the same structure with its labelling installed through replace_labelling_function, plus a key that is not a state
    # and carries every atom in sight: the result must still be a set of STATES and no internal error may surface
    K3 = None
    if isinstance(kdata[2], dict):
        K3 = gen.mk_kripke((kdata[0], kdata[1], {}))
        L3 = dict((s_, set(l_)) for s_, l_ in kdata[2].items() if s_ in SK.states)
        extra = set(a_ for l_ in kdata[2].values() for a_ in l_) | set(['p', 'q'])
        for t_ in ts:
            extra |= set(trees.atoms_of(t_))
        L3[('#not-a-state',)] = extra
        if call(K3.replace_labelling_function, L3)[0] != 'ok':
            K3 = None
    for ti, t in enumerate(ts):
        atoms = trees.atoms_of(t)
        collision = any(a.startswith('[') for a in atoms)
        attrs = {'logic': logic, 'none_state': has_none, 'fresh_atom_collision': collision}

        def bad(kind, what):
            fails.append((kind, '%s: %s.modelcheck(%s, %s)' % (what, logic, gen.ktext(kdata), t),
                          dict(attrs), (logic, kdata, [t])))
        f = trees.build(L, t)
        snap = deep_snapshot(K)
        r = call(L.modelcheck, K, f)
        keys.add((logic, repr(kdata), t))
        if r[0] != 'ok':
            bad('modelcheck:raises:internal', 'raised %s (%s)' % (r[1], r[2]))
            continue
        got = r[1]
        if type(got) is not set:
            bad('modelcheck:ensures:is_set', 'returned a %s' % type(got).__name__)
            continue
        if not got <= set(SK.states):
            bad('modelcheck:ensures:subset_of_states', 'returned non-states %r' % (got - set(SK.states),))
        exp = set(sem.sat(SK, t))
        if got != exp:
            bad('modelcheck:ensures:exact', 'returned %r, the semantics gives %r' % (got, exp))
        internal = set(id(x) for x in K._next.values()) | set(id(x) for x in K._labels.values()) | {id(K.S0)}
        if id(got) in internal:
            bad('modelcheck:fresh:aliases_structure', 'the returned set is an internal set of the structure')
        first = set(got)
        got.add('#junk')
        got.discard(next(iter(SK.states)))
        r2 = call(L.modelcheck, K, f)
        if r2[0] != 'ok' or r2[1] != first:
            bad('modelcheck:fresh:owned_by_caller', 'after mutating the first result the second call gives %r, first was %r' % (r2[1:], first))
        elif r2[1] is got:
            bad('modelcheck:fresh:owned_by_caller', 'the same set object is returned twice')
        if deep_snapshot(K) != snap:
            bad('modelcheck:frame:kripke', 'the Kripke structure was modified')
            K = gen.mk_kripke(kdata)
        if K3 is not None and not has_none and not collision:
            r3 = call(L.modelcheck, K3, trees.build(L, t))
            if r3[0] != 'ok':
                bad('modelcheck:raises:internal', 'after replace_labelling_function(the same labels + a key that is not a state) raised %s (%s)' % (r3[1], r3[2]))
            elif type(r3[1]) is not set or not r3[1] <= set(SK.states):
                bad('modelcheck:ensures:subset_of_states', 'after replace_labelling_function(the same labels + a key that is not a state) returned %r' % (r3[1],))
            elif r3[1] != exp:
                bad('modelcheck:ensures:exact', 'after replace_labelling_function(the same labels + a key that is not a state) returned %r, the semantics gives %r' % (r3[1], exp))
    return {'fails': fails, 'n': len(ts), 'keys': keys}


# ----------------------------------------------------------------------------
# C07: purity over histories

def _global_state():
    """module/class level mutable state of the package that a modelcheck call
    could touch"""
    import pyModelChecking.language as BL
    out = {}
    for name in ('PL', 'CTL', 'LTL', 'CTLS'):
        L = lang(name)
        out[name + '.alphabet'] = tuple(sorted((k, id(v)) for k, v in L.alphabet.items()))
        out[name + '.symbols'] = tuple(L.symbols)
        out[name + '.Parser.grammar'] = L.Parser.grammar
        for mname in ('model_checking',):
            m = getattr(L, mname, None)
        import sys as _sys
        m = _sys.modules.get('pyModelChecking.%s.model_checking' % name)
        if m is not None:
            out[name + '.mc.globals'] = tuple(sorted((k, id(v), repr(v) if isinstance(v, (dict, list, set)) else '')
                                                     for k, v in vars(m).items() if not k.startswith('__')))
    out['Bool.symbols'] = tuple(sorted(BL.Bool.symbols.items()))
    # every mutable module-level / class-level container of the package outside BDD (a cache
    # added anywhere shows up as a changed snapshot)
    import sys as _sys
    import inspect as _inspect
    for mname, m in sorted(_sys.modules.items()):
        if not mname.startswith('pyModelChecking') or '.BDD' in mname or '.tests' in mname or m is None:
            continue
        for k, v in sorted(vars(m).items()):
            if isinstance(v, (dict, list, set)) and not k.startswith('__'):
                out['%s.%s' % (mname, k)] = (len(v), repr(sorted(map(repr, v)))[:400])
            elif _inspect.isclass(v) and getattr(v, '__module__', '') == mname:
                for ck, cv in sorted(vars(v).items()):
                    if isinstance(cv, (dict, list, set)) and not ck.startswith('__'):
                        out['%s.%s.%s' % (mname, k, ck)] = (len(cv), repr(sorted(map(repr, cv)))[:400])
    return out


def check_purity_case(case):
    """case = (seed, n_calls): a pool of structures / formulas / fairness
    arguments; every (K, f, F, text?) query is evaluated once, then a random
    interleaving of n_calls queries must return equal sets each time, and every
    structure / formula object / F argument must be unchanged throughout."""
    import random
    seed, n_calls = case
    rng = random.Random(seed)
    fails = []
    Ks = []
    for _ in range(4):
        kd = gen.random_kripke_data(rng, 4)
        Ks.append((kd, gen.mk_kripke(kd)))
    queries = []
    ctlf = [gen.random_tree(rng, gen.ctl_ops(), 3) for _ in range(5)]
    ltlf = []
    while len(ltlf) < 3:
        g = gen.random_tree(rng, gen.path_ops(), 3)
        if gen.count_temporal(g) <= 3:
            ltlf.append(('A', g))
    ctlsf = gen.ctls_state_formulas(rng, 3, 3, 2)
    for logic, ts in (('CTL', ctlf), ('LTL', ltlf), ('CTLS', ctlsf)):
        L = lang(logic)
        for t in ts:
            for ki in range(len(Ks)):
                if rng.random() < 0.6:
                    continue
                S = Ks[ki][0][0]
                Fs = [None]
                if logic != 'LTL':
                    Fs.append([set(s for s in S if rng.random() < 0.5)])
                for F in Fs:
                    as_text = rng.random() < 0.3
                    arg = trees.to_text(t) if as_text else trees.build(L, t)
                    queries.append({'logic': logic, 't': t, 'ki': ki, 'F': F, 'arg': arg,
                                    'Fcopy': copy.deepcopy(F), 'first': None})
    snaps = [deep_snapshot(K) for _, K in Ks]
    g0 = _global_state()

    def describe(q):
        kd = Ks[q['ki']][0]
        return '%s.modelcheck(%s, %s%s, F=%r)' % (q['logic'], gen.ktext(kd), trees.to_text(q['t']),
                                                                     ' [text]' if isinstance(q['arg'], str) else '', q['Fcopy'])

    def run(q):
        L = lang(q['logic'])
        K = Ks[q['ki']][1]
        r = call(L.modelcheck, K, q['arg'], F=q['F']) if q['F'] is not None else call(L.modelcheck, K, q['arg'])
        attrs = {'logic': q['logic'], 'fair': q['F'] is not None}
        if deep_snapshot(K) != snaps[q['ki']]:
            fails.append(('purity:frame:kripke', 'the Kripke structure was modified by ' + describe(q), attrs))
            snaps[q['ki']] = deep_snapshot(K)
        if not isinstance(q['arg'], str) and trees.tree(q['arg']) != q['t']:
            fails.append(('purity:frame:formula', 'the formula object was modified by ' + describe(q), attrs))
        if q['F'] != q['Fcopy']:
            fails.append(('purity:frame:F', 'the fairness argument was modified by ' + describe(q), attrs))
        return r, attrs
    order = list(range(len(queries)))
    for i in order:
        queries[i]['first'], _ = run(queries[i])
    # the result depends only on the arguments: a text query must agree with the same formula
    # given as an object, whatever was parsed before it (by this or by another logic)
    for q in queries:
        if isinstance(q['arg'], str):
            Lq = lang(q['logic'])
            K = Ks[q['ki']][1]
            obj = trees.build(Lq, q['t'])
            r_obj = call(Lq.modelcheck, K, obj, F=q['F']) if q['F'] is not None else call(Lq.modelcheck, K, obj)
            a = q['first']
            if a[0] != r_obj[0] or (a[0] == 'ok' and a[1] != r_obj[1]) or (a[0] != 'ok' and a[1] != r_obj[1]):
                fails.append(('purity:text_vs_object', '%s gives %r as text but %r as an object (after other calls in this process)'
                              % (describe(q), a[:2], r_obj[:2]), {'logic': q['logic'], 'fair': q['F'] is not None}))
    for _ in range(n_calls):
        q = rng.choice(queries)
        r, attrs = run(q)
        a, b = q['first'], r
        same = (a[0] == b[0]) and (a[1] == b[1] if a[0] == 'ok' else a[1] == b[1])
        if not same:
            fails.append(('purity:repeatable', 'repeating %s gave %r, the first call gave %r' % (describe(q), b[:2], a[:2]), attrs))
            break
    # the caller edits the structures (a label through the live set that labels(s) returns, an edge through add_edge): a
    # call on the edited object must answer like a call on a freshly built structure with the same states, transitions
    # and labels - the result depends on the arguments as they are now, not on what was computed for them before
    from pyModelChecking import Kripke
    fresh = []
    for ki, (kd, K) in enumerate(Ks):
        st = list(K._next.keys())
        r = call(K.labels, st[0])
        if r[0] == 'ok' and isinstance(r[1], set):
            if 'p' in r[1]:
                r[1].discard('p')
            else:
                r[1].add('p')
        call(K.add_edge, st[-1], st[0])
        snaps[ki] = deep_snapshot(K)
        fresh.append(Kripke(S=list(K._next.keys()), R=[(a_, b_) for a_, ds_ in K._next.items() for b_ in ds_],
                            L=dict((s_, set(l_)) for s_, l_ in K._labels.items())))
    for q in queries:
        if q['F'] is not None:
            continue
        Lq = lang(q['logic'])
        r1 = call(Lq.modelcheck, Ks[q['ki']][1], q['arg'])
        r2 = call(Lq.modelcheck, fresh[q['ki']], trees.to_text(q['t']) if isinstance(q['arg'], str) else trees.build(Lq, q['t']))
        if r1[0] != r2[0] or r1[1] != r2[1]:
            fails.append(('purity:after_caller_edit', 'after the caller toggled p at the first state and added an edge, %s gives %r; a freshly built equal structure gives %r'
                          % (describe(q), r1[:2], r2[:2]), {'logic': q['logic'], 'fair': False}))
            break
    if _global_state() != g0:
        fails.append(('purity:frame:globals', 'module/class level state of the package changed (seed %d)' % seed, {}))
    return {'fails': [f + ((seed, n_calls),) if len(f) == 3 else f for f in fails], 'n': len(queries) + n_calls,
            'keys': set((seed, i) for i in range(len(queries)))}


# ----------------------------------------------------------------------------
# C06: presentation independence

def _rename_tree(t, amap):
    if t[0] == 'ap':
        return ('ap', amap.get(t[1], t[1]))
    if t[0] in ('true', 'false'):
        return t
    return (t[0],) + tuple(_rename_tree(c, amap) for c in t[1:])


def check_presentation_case(case):
    """case = (logic, kdata, [trees], seed): state bijections (to strings /
    tuples), reordered S/R/L collections, consistent atom renaming, added
    unreachable states"""
    import random
    logic, kdata, ts, seed = case
    rng = random.Random(seed)
    L = lang(logic)
    S, R, Lab = kdata
    fails = []
    keys = set()
    K0 = gen.mk_kripke(kdata)
    # variants: (name, kdata', state map, atom map, restrict-to-original)
    variants = []
    for name, mk in (('to-strings', lambda s: 'st%r' % (s,)), ('to-tuples', lambda s: (s, 'x')),
                     ('to-mixed', lambda s: [('a', s), 'b%r' % (s,), -7 - s][s % 3] if isinstance(s, int) else (s,))):
        m = {s: mk(s) for s in S}
        variants.append((name, ([m[s] for s in S], [(m[a], m[b]) for a, b in R], {m[s]: list(l) for s, l in Lab.items()}), m, {}, None))
    perm = list(S)
    rng.shuffle(perm)
    m = dict(zip(S, perm))
    variants.append(('permute-states', ([m[s] for s in S], [(m[a], m[b]) for a, b in R], {m[s]: list(l) for s, l in Lab.items()}), m, {}, None))
    S2, R2 = list(S), list(R)
    rng.shuffle(S2)
    rng.shuffle(R2)
    L2 = {}
    for s in reversed(list(Lab.keys())):
        l = list(Lab[s])
        rng.shuffle(l)
        L2[s] = l
    ident = {s: s for s in S}
    variants.append(('reorder-collections', (S2, R2, L2), ident, {}, None))
    variants.append(('reorder-reversed', (list(reversed(S)), list(reversed(R)), dict(reversed(list(Lab.items())))), ident, {}, None))
    amap = {'p': 'q', 'q': 'p'} if rng.random() < 0.5 else {'p': 'alpha', 'q': 'Beta_2'}
    variants.append(('rename-atoms', (list(S), list(R), {s: [amap.get(a, a) for a in l] for s, l in Lab.items()}), ident, amap, None))
    # names that the library itself uses for its internal markers must be as good as any other
    amap2 = {'p': 'fair', 'q': 'fair0'}
    variants.append(('rename-atoms-to-marker-names', (list(S), list(R), {s: [amap2.get(a, a) for a in l] for s, l in Lab.items()}), ident, amap2, None))
    # ... and so must the reserved words of the concrete syntax, which are ordinary names for formula OBJECTS
    amap3 = rng.choice([{'p': 'X', 'q': 'and'}, {'p': 'G', 'q': 'U'}, {'p': 'A', 'q': 'not'}, {'p': 'F', 'q': 'R'}, {'p': 'or', 'q': 'E'}, {'p': 'true', 'q': 'false'}])
    variants.append(('rename-atoms-to-reserved-words', (list(S), list(R), {s: [amap3.get(a, a) for a in l] for s, l in Lab.items()}), ident, amap3, None))
    extra = ['u1', 'u2']
    Rx = list(R) + [('u1', 'u2'), ('u2', 'u1'), ('u2', 'u2')] + ([('u1', S[0])] if rng.random() < 0.5 else [])
    Lx = dict((s, list(l)) for s, l in Lab.items())
    Lx['u1'] = ['p']
    Lx['u2'] = ['q', 'p']
    variants.append(('add-unreachable', (list(S) + extra, Rx, Lx), ident, {}, set(S)))
    for t in ts:
        f0 = trees.build(L, t)
        base = call(L.modelcheck, K0, f0)
        if base[0] != 'ok':
            continue        # C19/C01.. own internal errors
        keys.add((logic, repr(kdata), t))
        for name, kd2, smap, am, restrict in variants:
            K2 = gen.mk_kripke(kd2)
            t2 = _rename_tree(t, am)
            r = call(L.modelcheck, K2, trees.build(L, t2))
            exp = set(smap[s] for s in base[1])
            got = r[1] if r[0] == 'ok' else None
            if got is not None and restrict is not None:
                got = set(s for s in got if s in restrict)
            if r[0] != 'ok' or got != exp:
                fails.append(('presentation:' + name,
                              '%s changes the answer of %s.modelcheck(%s, %s): %r instead of %r (variant structure S=%r,R=%r,L=%r)'
                              % (name, logic, gen.ktext(kdata), trees.to_text(t), r[1:] if r[0] != 'ok' else got, exp, kd2[0], kd2[1], kd2[2]),
                              {'logic': logic, 'variant': name, 'atom_named_like_a_constant_of_the_formula': _atom_like_own_constant(t2)},
                              (logic, kdata, [t], seed)))
    # with fairness constraints: only the atom renamings are compared (same states in the same order: what the
    # library computes under fairness is known to depend on the order of the states, KF-C15-1)
    nf = 0
    if logic in ('CTL', 'CTLS') and S:
        Fs = [[set(S)], [set([S[0]])], [set(S[:1]), set(S[-1:])]]
        for t in ts[:3]:
            f0 = trees.build(L, t)
            for F in Fs:
                base = call(L.modelcheck, K0, f0, None, [set(P) for P in F])
                if base[0] != 'ok':
                    continue
                for name, kd2, smap, am, restrict in variants:
                    if not name.startswith('rename-atoms'):
                        continue
                    nf += 1
                    t2 = _rename_tree(t, am)
                    r = call(L.modelcheck, gen.mk_kripke(kd2), trees.build(L, t2), None, [set(P) for P in F])
                    used = set(a for l in kd2[2].values() for a in l)
                    absent = any(a not in used for a in _tree_atoms(t2))
                    if r[0] != 'ok' or r[1] != base[1]:
                        fails.append(('presentation:' + name + ':fair',
                                      '%s changes the answer of %s.modelcheck(%s, %s, F=%r): %r instead of %r'
                                      % (name, logic, gen.ktext(kdata), trees.to_text(t), [sorted(P, key=repr) for P in F],
                                         r[1:] if r[0] != 'ok' else r[1], base[1]),
                                      {'logic': logic, 'variant': name + ':fair', 'formula_atom_absent_from_labels': absent,
                                       'atom_named_like_a_constant_of_the_formula': _atom_like_own_constant(t2)},
                                      (logic, kdata, [t], seed)))
    return {'fails': fails, 'n': len(ts) * len(variants) + nf, 'keys': keys}


def _tree_constants(t):
    """the Boolean constants of the formula: written out, or brought in by the documented abbreviations F g = true U g
    and G g = not (true U not g), which every checker expands before it starts"""
    if t[0] in ('true', 'false'):
        return {t[0]}
    out = set()
    if t[0] in ('F', 'G'):
        out.add('true')
    for c in t[1:]:
        if isinstance(c, tuple) and t[0] != 'ap':
            out |= _tree_constants(c)
    return out


def _atom_like_own_constant(t):
    """the formula has an atom called true/false AND the Boolean constant of that name (KF-C06-2)"""
    return bool(_tree_atoms(t) & _tree_constants(t))


def _tree_atoms(t):
    if t[0] == 'ap':
        return {t[1]}
    out = set()
    for c in t[1:]:
        if isinstance(c, tuple):
            out |= _tree_atoms(c)
    return out


def battery(seed, n):
    """deterministic list of (logic, kdata, tree) used for the hash-seed runs"""
    import random
    rng = random.Random(seed)
    out = []
    ctl = [gen.random_tree(rng, gen.ctl_ops(), 3) for _ in range(n)]
    pth = []
    while len(pth) < n:
        g = gen.random_tree(rng, gen.path_ops(), 3)
        if gen.count_temporal(g) <= 3:
            pth.append(g)
    ctls = gen.ctls_state_formulas(rng, n, 3, 2)
    for i in range(n):
        kd = gen.random_kripke_data(rng, 4)
        kd = (kd[0], kd[1], {s: sorted(l) for s, l in kd[2].items()})
        # string states so that set iteration order really depends on the hash seed
        m = {s: 'state_%d' % s for s in kd[0]}
        kd = ([m[s] for s in kd[0]], [(m[a], m[b]) for a, b in kd[1]], {m[s]: l for s, l in kd[2].items()})
        out.append(('CTL', kd, ctl[i]))
        out.append(('LTL', kd, ('A', pth[i])))
        out.append(('CTLS', kd, ctls[i]))
    return out


def battery_answers(seed, n):
    res = []
    for logic, kd, t in battery(seed, n):
        L = lang(logic)
        r = call(L.modelcheck, gen.mk_kripke(kd), trees.build(L, t))
        res.append(sorted(r[1]) if r[0] == 'ok' else ['raise', r[1]])
    return res


def check_hashseed_case(case):
    """case = (battery seed, n, hash seed): run the battery in a fresh
    interpreter under PYTHONHASHSEED and compare with this process's answers"""
    import json
    import os
    import subprocess
    import sys as _sys
    bseed, n, hseed = case
    env = dict(os.environ)
    env['PYTHONHASHSEED'] = str(hseed)
    code = ("import json,sys\nfrom vf.rtc.mc_rtc import battery_answers\n"
            "print(json.dumps(battery_answers(%d,%d)))\n" % (bseed, n))
    p = subprocess.run([_sys.executable, '-W', 'ignore', '-c', code], env=env, capture_output=True, text=True, timeout=1200)
    if p.returncode != 0:
        raise RuntimeError('hash-seed subprocess failed: ' + p.stderr[-400:])
    theirs = json.loads(p.stdout.strip().splitlines()[-1])
    mine = json.loads(json.dumps(battery_answers(bseed, n)))
    fails = []
    items = battery(bseed, n)
    keys = set()
    for i, (a, b) in enumerate(zip(mine, theirs)):
        keys.add((bseed, i, hseed))
        if a != b:
            logic, kd, t = items[i]
            fails.append(('presentation:hash-seed', 'PYTHONHASHSEED=%d gives %r, PYTHONHASHSEED=%s gives %r for %s.modelcheck(%s, %s)'
                          % (hseed, b, os.environ.get('PYTHONHASHSEED'), a, logic, gen.ktext(kd), trees.to_text(t)),
                          {'logic': logic, 'variant': 'hash-seed'}))
    return {'fails': fails, 'n': len(mine), 'keys': keys}


# ----------------------------------------------------------------------------
# C04: agreement of the three checkers and semantic laws (no reference oracle)

def _mc(logic, K, t, as_text=False):
    L = lang(logic)
    arg = trees.to_text(t) if as_text else trees.build(L, t)
    return call(L.modelcheck, K, arg)


def check_laws_case(case):
    """case = (kdata, ctl state formulas, propositional-operand path formulas,
    ltl path formulas)"""
    kdata, ctl_fs, shared, ltl_gs = case
    fails = []
    keys = set()
    K = gen.mk_kripke(kdata)
    S = set(K.states())

    def bad(kind, what, rep):
        fails.append((kind, '%s on %s' % (what, gen.ktext(kdata)), {'law': kind}, rep))

    def val(logic, t, as_text=False):
        r = _mc(logic, K, t, as_text)
        return set(r[1]) if r[0] == 'ok' else ('raise', r[1])
    # agreement of entry points
    for g in shared:                      # A g in CTL, LTL and CTL*
        t = ('A', g)
        keys.add(('shared', repr(kdata), t))
        a, b, c = val('CTL', t), val('LTL', t), val('CTLS', t)
        if not (a == b == c):
            bad('agree:CTL-LTL-CTLS', 'CTL/LTL/CTLS.modelcheck give %r / %r / %r for %s' % (a, b, c, trees.to_text(t)), (kdata, [], [g], []))
        for logic in ('CTL', 'LTL', 'CTLS'):
            if val(logic, t, True) != val(logic, t):
                bad('agree:text-object', '%s.modelcheck differs between text %r and object' % (logic, trees.to_text(t)), (kdata, [], [g], []))
    for f in ctl_fs:                      # every CTL formula is a CTL* formula
        keys.add(('ctl', repr(kdata), f))
        a, c = val('CTL', f), val('CTLS', f)
        if a != c:
            bad('agree:CTL-CTLS', 'CTL/CTLS.modelcheck give %r / %r for %s' % (a, c, trees.to_text(f)), (kdata, [f], [], []))
        if val('CTL', f, True) != a:
            bad('agree:text-object', 'CTL.modelcheck differs between text %r and object' % (trees.to_text(f),), (kdata, [f], [], []))
    # ONE formula object handed to the checkers one after the other (CTL* first): where a checker accepts the object of
    # another logic's classes, every answer is the one above (a TypeError for foreign classes is not this law's business)
    same_rep = (kdata, list(ctl_fs[:6]), list(shared[:4]), [])
    for t, with_ltl in [(f_, False) for f_ in ctl_fs[:6]] + [(('A', g_), True) for g_ in shared[:4]]:
        first = val('CTLS', t)
        if isinstance(first, tuple):
            continue
        fo = trees.build(lang('CTLS'), t)
        for logic in ('CTLS', 'CTL', 'CTLS') + (('LTL',) if with_ltl else ()):
            r = call(lang(logic).modelcheck, K, fo)
            if r[0] == 'ok' and set(r[1]) != first:
                bad('agree:same-object', '%s.modelcheck on a formula OBJECT already checked gives %r, first answer %r, for %s'
                    % (logic, set(r[1]), first, trees.to_text(t)), same_rep)
            elif r[0] != 'ok' and r[1] != 'TypeError':
                bad('agree:same-object', '%s.modelcheck on a formula OBJECT already checked raised %s (%s) for %s'
                    % (logic, r[1], r[2], trees.to_text(t)), same_rep)
    for g in ltl_gs:                      # every LTL formula is a CTL* formula
        t = ('A', g)
        keys.add(('ltl', repr(kdata), t))
        b, c = val('LTL', t), val('CTLS', t)
        if b != c:
            bad('agree:LTL-CTLS', 'LTL/CTLS.modelcheck give %r / %r for %s' % (b, c, trees.to_text(t)), (kdata, [], [], [g]))
        # A g == not E not g  (CTL*)
        d = val('CTLS', ('not', ('E', ('not', g))))
        if c != d:
            bad('law:A=notEnot', 'A g gives %r, not E not g gives %r for g=%s' % (c, d, trees.to_text(g)), (kdata, [], [], [g]))
    # Boolean laws and expansion laws, for CTL and CTL* entry points
    for logic in ('CTL', 'CTLS'):
        fs = ctl_fs
        for i, f in enumerate(fs):
            vf = val(logic, f)
            if isinstance(vf, tuple):
                continue
            if val(logic, ('not', f)) != S - vf:
                bad('law:not', '%s: not f is not the complement for f=%s' % (logic, trees.to_text(f)), (kdata, [f], [], []))
            g = fs[(i * 7 + 3) % len(fs)]
            vg = val(logic, g)
            if isinstance(vg, tuple):
                continue
            rep = (kdata, [f, g], [], [])
            if val(logic, ('and', f, g)) != vf & vg:
                bad('law:and', '%s: (f and g) is not the intersection for f=%s g=%s' % (logic, trees.to_text(f), trees.to_text(g)), rep)
            if val(logic, ('or', f, g)) != vf | vg:
                bad('law:or', '%s: (f or g) is not the union for f=%s g=%s' % (logic, trees.to_text(f), trees.to_text(g)), rep)
            if val(logic, ('imply', f, g)) != (S - vf) | vg:
                bad('law:imply', '%s: (f --> g) is not complement-union for f=%s g=%s' % (logic, trees.to_text(f), trees.to_text(g)), rep)
            # duals and expansions
            pairs = [
                ('law:AX=notEXnot', ('A', ('X', f)), ('not', ('E', ('X', ('not', f))))),
                ('law:AG=notEFnot', ('A', ('G', f)), ('not', ('E', ('F', ('not', f))))),
                ('law:AF=notEGnot', ('A', ('F', f)), ('not', ('E', ('G', ('not', f))))),
                ('law:AR=notEUnot', ('A', ('R', f, g)), ('not', ('E', ('U', ('not', f), ('not', g))))),
                ('law:AU=notERnot', ('A', ('U', f, g)), ('not', ('E', ('R', ('not', f), ('not', g))))),
                ('law:EU-expansion', ('E', ('U', f, g)), ('or', g, ('and', f, ('E', ('X', ('E', ('U', f, g))))))),
                ('law:AU-expansion', ('A', ('U', f, g)), ('or', g, ('and', f, ('A', ('X', ('A', ('U', f, g))))))),
                ('law:AG-expansion', ('A', ('G', f)), ('and', f, ('A', ('X', ('A', ('G', f)))))),
                ('law:EG-expansion', ('E', ('G', f)), ('and', f, ('E', ('X', ('E', ('G', f)))))),
                ('law:EF-expansion', ('E', ('F', f)), ('or', f, ('E', ('X', ('E', ('F', f)))))),
                ('law:AF-expansion', ('A', ('F', f)), ('or', f, ('A', ('X', ('A', ('F', f)))))),
                ('law:ER-expansion', ('E', ('R', f, g)), ('and', g, ('or', f, ('E', ('X', ('E', ('R', f, g))))))),
            ]
            for name, lhs, rhs in pairs:
                a, b = val(logic, lhs), val(logic, rhs)
                if a != b:
                    bad(name, '%s: %s gives %r but %s gives %r' % (logic, trees.to_text(lhs), a, trees.to_text(rhs), b), rep)
    return {'fails': fails, 'n': len(shared) * 6 + len(ctl_fs) * 40 + len(ltl_gs) * 3, 'keys': keys}
