"""Run-time (bounded) form of the kripke.py contracts (C14)."""
from .graph_rtc import _raises


def kview(K):
    V = set(K._next.keys())
    E = set((s, d) for s, ds in K._next.items() for d in ds)
    Lab = {s: set(a) for s, a in K._labels.items()}
    return V, E, set(K.S0), Lab


def _obj_ids(K):
    ids = set(id(x) for x in K._next.values()) | set(id(x) for x in K._labels.values())
    return ids | {id(K._next), id(K._labels), id(K.S0)}


def _ksnap(K):
    return (kview(K), {s: id(x) for s, x in K._next.items()},
            {s: id(x) for s, x in K._labels.items()})


def _kunchanged(K, snap):
    return snap == _ksnap(K)


def check_kripke_case(case):
    """case = (S, S0, R, L, X): constructor arguments (L may be a non-dict) and
    the state subset for get_substructure."""
    from pyModelChecking.kripke import Kripke
    S, S0, R, L, X = case
    fails = []

    def bad(kind, what):
        fails.append((kind, '%s on Kripke(S=%r,S0=%r,R=%r,L=%r), X=%r'
                      % (what, S, S0, R, L, X)))

    Vs = set(S or []) | set(s for s, d in (R or [])) | set(d for s, d in (R or []))
    srcs = set(s for s, d in (R or []))
    total = all(s in srcs for s in Vs)
    L_ok = L is None or isinstance(L, dict)
    Lcopy = None
    if isinstance(L, dict):
        Lcopy = {k: set(v) for k, v in L.items()}
        Larg = {k: set(v) for k, v in L.items()}
    else:
        Larg = L
    r, K = _raises(lambda: Kripke(S=None if S is None else list(S),
                                  S0=None if S0 is None else list(S0),
                                  R=None if R is None else list(R), L=Larg),
                   RuntimeError)
    should = total and L_ok
    if should and r is not False:
        bad('__init__:raises:iff', 'constructor raised (%r) though R is total' % (r,))
        return fails
    if not should:
        if r is not True:
            bad('__init__:raises:iff', 'constructor did not raise RuntimeError (raise=%r) though %s'
                % (r, 'R is not total' if not total else 'L is not a dict'))
        return fails
    V, E, KS0, Lab = kview(K)
    if V != Vs or E != set(R or []):
        bad('__init__:ensures:view', 'states/transitions are %r / %r' % (V, E))
    if KS0 != (Vs & set(S0 or [])):
        bad('__init__:ensures:S0', 'S0 = %r' % (KS0,))
    expLab = {s: set((Lcopy or {}).get(s, ())) for s in Vs}
    if Lab != expLab:
        bad('__init__:ensures:labels', 'labels = %r, expected %r' % (Lab, expLab))
    if isinstance(Larg, dict) and (set(id(x) for x in Larg.values()) & _obj_ids(K)):
        bad('__init__:fresh:labels', 'a label set of the argument L is stored uncopied')
    if isinstance(Larg, dict) and Larg != Lcopy:
        bad('__init__:frame:L', 'the argument L was modified')
    if len(set(id(x) for x in K._labels.values())) != len(K._labels):
        bad('__init__:fresh:labels', 'two states share one label set object')
    snap = _ksnap(K)
    # accessors
    if set(K.states()) != Vs:
        bad('states:ensures', 'states() = %r' % (list(K.states()),))
    tr = K.transitions()
    if set(tr) != set(R or []) or len(list(tr)) != len(set(R or [])):
        bad('transitions:ensures', 'transitions() = %r' % (tr,))
    if set(K.transitions_iter()) != set(R or []):
        bad('transitions_iter:ensures', 'transitions_iter differs')
    for s in list(Vs) + ['#nostate']:
        rl, lab = _raises(lambda: K.labels(s), RuntimeError)
        rn, nx = _raises(lambda: K.next(s), RuntimeError)
        if s in Vs:
            if rl is not False or lab != expLab[s]:
                bad('labels:ensures', 'labels(%r) = %r raise=%r' % (s, lab, rl))
            if rn is not False or set(nx) != set(d for a, d in (R or []) if a == s):
                bad('next:ensures', 'next(%r) = %r raise=%r' % (s, nx, rn))
        else:
            if rl is not True:
                bad('labels:raises', 'labels(non-state) raise=%r value=%r' % (rl, lab))
            if rn is not True:
                bad('next:raises', 'next(non-state) raise=%r value=%r' % (rn, nx))
    allab = K.labels()
    if allab != set().union(*expLab.values()) if expLab else allab != set():
        bad('labels:ensures:union', 'labels() = %r' % (allab,))
    if id(allab) in _obj_ids(K):
        bad('labels:fresh:union', 'labels() returns an internal set')
    # clone
    rc, C = _raises(lambda: K.clone(), Exception)
    if rc is not False:
        bad('clone:raises', 'clone raised')
    else:
        if kview(C) != (Vs, set(R or []), KS0, expLab) or type(C) is not Kripke:
            bad('clone:ensures:view', 'clone view = %r' % (kview(C),))
        if _obj_ids(C) & _obj_ids(K):
            bad('clone:fresh', 'clone shares a mutable object with the original')
    # substructure
    Xs = set(X)
    Sx = Xs & Vs
    Ex = set((s, d) for s, d in (R or []) if s in Xs and d in Xs)
    tot_x = all(any(s == a for a, d in Ex) for s in Sx)
    rs, Sub = _raises(lambda: K.get_substructure(set(X)), RuntimeError)
    if tot_x:
        if rs is not False:
            bad('get_substructure:raises:iff', 'raised (%r) though the induced relation is total' % (rs,))
        else:
            sv = kview(Sub)
            if sv[0] != Sx or sv[1] != Ex:
                bad('get_substructure:ensures:view', 'sub-structure states/transitions %r / %r' % (sv[0], sv[1]))
            if sv[2] != (Xs & KS0):
                bad('get_substructure:ensures:S0', 'sub-structure S0 = %r' % (sv[2],))
            if sv[3] != {s: expLab[s] for s in Sx}:
                bad('get_substructure:ensures:labels', 'sub-structure labels = %r, expected %r'
                    % (sv[3], {s: expLab[s] for s in Sx}))
            if _obj_ids(Sub) & _obj_ids(K):
                bad('get_substructure:fresh', 'sub-structure shares a mutable object with the original')
    elif rs is not True:
        bad('get_substructure:raises:iff', 'did not raise RuntimeError (raise=%r) though the induced relation is not total' % (rs,))
    if not _kunchanged(K, snap):
        bad('frame:queries_modify_self', 'K changed by a query: now %r' % (kview(K),))
    # mutate the copies: K must not move
    for D in [d for d in (C if rc is False else None, Sub if (tot_x and rs is False) else None) if d is not None]:
        for ls in D._labels.values():
            ls.add('#junk')
        for ds in D._next.values():
            ds.add('#junk')
        D.S0.add('#junk')
    if not _kunchanged(K, snap):
        bad('frame:copy_aliases_self', 'mutating a copy changed K: now %r' % (kview(K),))
    return fails


def kripke_case_nontrivial(case):
    S, S0, R, L, X = case
    return bool(R) and isinstance(L, dict) and any(L.values())
