"""Entry point:  python -m vf.runner <ID> [--tier quick|thorough] [--replay P]"""
import argparse
import importlib
import os
import sys
import traceback

from . import core


def main(argv=None):
    ap = argparse.ArgumentParser()
    ap.add_argument('prop')
    ap.add_argument('--tier', default=os.environ.get('VERIF_TIER', 'quick'))
    ap.add_argument('--replay')
    a = ap.parse_args(argv)
    if a.replay:
        return core.run_replay(a.replay)
    tier = a.tier if a.tier in ('quick', 'thorough') else 'quick'
    try:
        seed = int(os.environ.get('VERIF_SEED', '0'))
    except ValueError:
        seed = 0
    ctx = core.Ctx(a.prop, tier, seed)
    try:
        mod = importlib.import_module('vf.props.' + a.prop)
        level, cmd = mod.run(ctx)
        rc = core.finish(ctx, level, cmd)
    except Exception:
        traceback.print_exc()
        print('CHECKER-CRASH property=%s (no verdict)' % a.prop)
        rc = 3
    finally:
        ctx.close()
    return rc


if __name__ == '__main__':
    sys.exit(main())
