"""Shared infrastructure: run context, violations, known findings, replay files,
evidence files, process pool."""
import json
import multiprocessing
import os
import pprint
import sys
import time
import traceback

ROOT = os.path.dirname(os.path.dirname(os.path.abspath(__file__)))
REPO = os.environ.get('VERIF_REPO', '/repo')
EVIDENCE_DIR = os.environ.get('VERIF_EVIDENCE_DIR') or os.path.join(ROOT, 'evidence')
REPLAY_DIR = os.environ.get('VERIF_REPLAY_DIR') or os.path.join(ROOT, 'replays')
KNOWN_FINDINGS = os.path.join(ROOT, 'known_findings.json')
BASELINE = os.path.join(ROOT, 'baseline_obligations.json')
NPROC = int(os.environ.get('VERIF_NPROC', '16'))

PYTHON_SEMANTICS_ASSUMED = [
    'E1 hashable keys behave mathematically (== is an equivalence consistent with hash); states/labels are values of one uninterpreted sort',
    'E2 iterating a set/dict visits each element exactly once in an arbitrary order',
    'E3 Python int is mathematical',
    'E4 no monkey-patching, no concurrent mutation, no __del__ side effects',
    'E5 partial correctness only: termination, stack depth, memory not modelled',
    'E6 a generator is consumed completely before its underlying container changes',
]


class Violation(object):
    def __init__(self, prop, kind, what, attrs=None, script=None,
                 obligation=None, solver_output=None, no_input=False,
                 details=None):
        self.prop = prop
        self.kind = kind            # short class, e.g. 'ensures:labels'
        self.what = what            # one-line human description
        self.attrs = dict(attrs or {})   # classification used for matching
        self.attrs.setdefault('kind', kind)
        self.script = script        # python source replaying on the real code
        self.obligation = obligation
        self.solver_output = solver_output
        self.no_input = no_input    # no failing input found (proof-only)
        self.details = details

    def key(self):
        return (self.kind, self.what, json.dumps(self.attrs, sort_keys=True, default=repr))


class Ctx(object):
    def __init__(self, prop, tier, seed):
        self.prop = prop
        self.tier = tier
        self.seed = seed
        self.t0 = time.time()
        self.violations = []
        self.known_hits = {}
        self.obligations = []       # dicts name,status,backend,seconds,owner
        self.functions = []         # functions under contract (+ sha)
        self.assumptions = []
        self.trusted = []
        self.bounded = {'evaluations': 0, 'distinct_nontrivial': 0,
                        'rule': '', 'samples': [], 'exhaustive': False,
                        'parts': []}
        self.notes = []
        self.undecided = []
        self.assumption_broken = []
        self._nontrivial_keys = set()
        self._pool = None

    # -- process pool ------------------------------------------------------
    def pool(self):
        if self._pool is None:
            self._pool = multiprocessing.get_context('fork').Pool(NPROC)
        return self._pool

    def pmap(self, fn, items, chunksize=None):
        items = list(items)
        if not items:
            return []
        if len(items) == 1 or NPROC == 1:
            return [fn(x) for x in items]
        if chunksize is None:
            chunksize = max(1, len(items) // (NPROC * 8))
        return self.pool().map(fn, items, chunksize)

    def close(self):
        if self._pool is not None:
            self._pool.terminate()
            self._pool = None

    # -- recording ---------------------------------------------------------
    def violation(self, v):
        self.violations.append(v)

    def add_bounded(self, name, evaluations, nontrivial_keys, rule, samples,
                    exhaustive=False):
        """nontrivial_keys: iterable of hashable keys of the distinct
        non-trivial cases (measured by the caller)."""
        keys = set(nontrivial_keys)
        self._nontrivial_keys |= set((name, k) for k in keys)
        b = self.bounded
        b['evaluations'] += int(evaluations)
        b['distinct_nontrivial'] = len(self._nontrivial_keys)
        b['parts'].append({'name': name, 'evaluations': int(evaluations),
                           'distinct_nontrivial': len(keys), 'rule': rule,
                           'exhaustive': bool(exhaustive)})
        b['rule'] = '; '.join('%s: %s' % (p['name'], p['rule'])
                              for p in b['parts'])
        for s in list(samples)[:3]:
            b['samples'].append({'part': name, 'case': s})
        b['exhaustive'] = all(p['exhaustive'] for p in b['parts'])

    def obligation(self, name, status, backend='', seconds=0.0, owner=None,
                   tags=(), detail=None):
        self.obligations.append({'name': name, 'status': status,
                                 'backend': backend,
                                 'seconds': round(seconds, 4),
                                 'owner': owner or self.prop,
                                 'tags': list(tags), 'detail': detail})


def load_known_findings():
    if not os.path.exists(KNOWN_FINDINGS):
        return []
    with open(KNOWN_FINDINGS) as fh:
        data = json.load(fh)
    return [e for e in data.get('findings', [])]


def match_known(v, findings):
    for e in findings:
        if e.get('property') != v.prop:
            continue
        m = e.get('match', {})
        if all(v.attrs.get(k) == val for k, val in m.items()):
            return e
    return None


def jsonable(x):
    if isinstance(x, (str, int, float, bool)) or x is None:
        return x
    if isinstance(x, dict):
        return {(k if isinstance(k, str) else repr(k)): jsonable(v) for k, v in x.items()}
    if isinstance(x, (list, tuple)):
        return [jsonable(v) for v in x]
    return repr(x)


def lit(x):
    """repr usable as a Python literal inside replay scripts"""
    return pprint.pformat(x, width=100)


def write_replay(v, n):
    os.makedirs(REPLAY_DIR, exist_ok=True)
    path = os.path.join(REPLAY_DIR, '%s-%d.json' % (v.prop, n))
    data = {'property': v.prop, 'kind': v.kind, 'what': v.what,
            'attrs': v.attrs, 'obligation': v.obligation,
            'solver_output': v.solver_output,
            'no_failing_input_found': bool(v.no_input),
            'details': v.details,
            'script': v.script,
            'how_to_replay': './check %s --replay %s' % (v.prop, path)}
    with open(path, 'w') as fh:
        json.dump(jsonable(data), fh, indent=1, default=repr)
    return path


def run_replay(path):
    """Execute the replay script of a replay file against the current /repo.
    Exit status 1 = the violation reproduces, 0 = it does not."""
    with open(path) as fh:
        data = json.load(fh)
    print('replay of %s: %s' % (data['property'], data['what']))
    if data.get('obligation'):
        print('obligation:', data['obligation'])
    if data.get('solver_output'):
        print('solver output:', data['solver_output'])
    script = data.get('script')
    if not script:
        print('no concrete failing input is attached to this replay file '
              '(no-failing-input-found); re-run the check to re-generate the '
              'failed obligation.')
        return 1
    ns = {'__name__': '__replay__'}
    try:
        exec(compile(script, path, 'exec'), ns)
    except SystemExit as e:
        return int(e.code or 0)
    except Exception:
        traceback.print_exc()
        return 3
    return int(ns.get('REPRODUCED', 0))


def finish(ctx, level, checker_cmd, design_ref=''):
    """Print verdict lines, write evidence, return exit code."""
    findings = load_known_findings()
    unknown = []
    known = {}
    seen = set()
    for v in ctx.violations:
        if v.key() in seen:
            continue
        seen.add(v.key())
        e = match_known(v, findings)
        if e is not None:
            known.setdefault(e['id'], (e, []))[1].append(v)
        else:
            unknown.append(v)
    for fid, (e, vs) in sorted(known.items()):
        print('KNOWN-FINDING: property=%s %s [%s; %d matching case(s) this run, e.g. %s]'
              % (ctx.prop, e['what_fails'], fid, len(vs), vs[0].what))
    for o in ctx.undecided:
        print('UNDECIDED %s' % o)
    for a in ctx.assumption_broken:
        print('ASSUMPTION-BROKEN property=%s %s' % (ctx.prop, a))
    # cap the number of reported violations (one line per distinct class)
    reported = []
    by_class = {}
    for v in unknown:
        by_class.setdefault(v.kind, []).append(v)
    n = 0
    for kind, vs in sorted(by_class.items()):
        v = vs[0]
        n += 1
        path = write_replay(v, n)
        tail = ' no-failing-input-found' if v.no_input else ''
        obl = (' failed-obligation=%s' % v.obligation.split(';')[0]) if v.obligation and not v.no_input else ''
        print('VIOLATION property=%s replay=%s kind=%s (%d case(s)) %s%s%s'
              % (ctx.prop, path, kind, len(vs), v.what, obl, tail))
        reported.append(v)
    obl = ctx.obligations
    discharged = sum(1 for o in obl if o['status'] == 'discharged')
    backends = {}
    for o in obl:
        if o['status'] == 'discharged':
            b = backends.setdefault(o['backend'], {'n': 0, 'seconds': 0.0})
            b['n'] += 1
            b['seconds'] = round(b['seconds'] + o['seconds'], 3)
    b = ctx.bounded
    coverage = {
        'obligations': len(obl),
        'discharged': discharged,
        'checker_cmd': checker_cmd,
        'trusted_base': ctx.trusted,
        'backends': backends,
        'solver_seconds': round(sum(o['seconds'] for o in obl), 3),
        'obligation_list': [{'name': o['name'], 'status': o['status'],
                             'backend': o['backend'], 's': o['seconds'],
                             'owner': o['owner']} for o in obl],
        'undecided': ctx.undecided,
        'assumption_broken': ctx.assumption_broken,
        'functions_under_contract': ctx.functions,
        'evaluations': b['evaluations'],
        'distinct_nontrivial': b['distinct_nontrivial'],
        'rule': b['rule'] or 'n/a',
        'samples': b['samples'] or [o['name'] for o in obl[:5]],
        'exhaustive': b['exhaustive'],
        'bounded_parts': b['parts'],
        'bounded_label': 'bounded stand-in (run-time contracts over the stated scope); never counted in discharged',
        'known_findings_hit': sorted(known.keys()),
        'planted_defect_self_test': getattr(ctx, 'planted', None),
        'notes': ctx.notes,
    }
    ev_level = level
    if level == 'proof' and (len(obl) == 0 or discharged != len(obl)):
        # never claim a proof on a run that did not discharge everything
        ev_level = 'exploration'
        coverage['notes'] = coverage['notes'] + [
            'level downgraded for this run: %d/%d obligations discharged'
            % (discharged, len(obl))]
    ev = {'property_id': ctx.prop, 'tier': ctx.tier, 'seed': ctx.seed,
          'level': ev_level, 'coverage': coverage,
          'assumptions': ctx.assumptions,
          'wall_s': round(time.time() - ctx.t0, 2),
          'violations': len(unknown)}
    os.makedirs(EVIDENCE_DIR, exist_ok=True)
    with open(os.path.join(EVIDENCE_DIR, ctx.prop + '.json'), 'w') as fh:
        json.dump(jsonable(ev), fh, indent=1, default=repr)
    print('%s tier=%s obligations=%d discharged=%d bounded_evaluations=%d '
          'distinct_nontrivial=%d violations=%d known=%d wall=%.1fs'
          % (ctx.prop, ctx.tier, len(obl), discharged, b['evaluations'],
             b['distinct_nontrivial'], len(unknown), len(known),
             time.time() - ctx.t0))
    return 1 if unknown else 0
