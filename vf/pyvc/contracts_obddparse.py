"""Sidecar contracts for the expression parser of pyModelChecking/BDD/OBDD.py (property C18, first
clause): the OBDD built from a Python Boolean expression denotes the expression's value under every
assignment; Python's `and`/`or`/`not` are synonyms of `&`/`|`/`~`; non-Boolean syntax raises SyntaxError.

Python `ast` nodes are values of an uninterpreted sort with reader functions (kind, operator, children,
identifier, constant).  The SPECIFICATION is `value_of(node, sigma)`: the documented meaning of the
expression as a Boolean function (trusted; note that `~` is read as negation, as the package documents,
not as Python's integer complement), and `boolean_syntax(node)`: the shapes the parser accepts."""
import z3

from . import heap as hp
from .heap import SV, H
from .driver import Extension
from .engine import Contract, Unsupported
from . import contracts_bdd as cb

I = z3.IntSort()
B = z3.BoolSort()
A = z3.DeclareSort('AstNode')

KINDS = ['BinOp', 'BoolOp', 'UnaryOp', 'Name', 'Constant', 'Other']
OPS = ['BitAnd', 'BitOr', 'And', 'Or', 'Not', 'Invert', 'OtherOp']
akind = z3.Function('ast_kind', A, I)
aop = z3.Function('ast_op', A, I)
aleft = z3.Function('ast_left', A, A)
aright = z3.Function('ast_right', A, A)
aoperand = z3.Function('ast_operand', A, A)
anvals = z3.Function('ast_nvalues', A, I)
aval = z3.Function('ast_value_i', A, I, A)
aid = z3.Function('ast_id', A, H)
aconst = z3.Function('ast_constant', A, I)       # 0: the constant 0/False, 1: the constant 1/True, 2: anything else
value_of = z3.Function('value_of', A, hp.SetH, B)
syntax_ok = z3.Function('boolean_syntax', A, B)
pre_and = z3.Function('conj_of_first', A, I, hp.SetH, B)
pre_or = z3.Function('disj_of_first', A, I, hp.SetH, B)
w_bad = z3.Function('w_bad_operand', A, I)

TRUE_ID = z3.Const('strlit!True', H)
FALSE_ID = z3.Const('strlit!False', H)


def K(name):
    return z3.IntVal(KINDS.index(name))


def OPC(name):
    return z3.IntVal(OPS.index(name))


def spec_axioms():
    n = z3.Const('n!ast', A)
    sg = z3.Const('sigma!ast', hp.SetH)
    i = z3.Int('i!ast')
    V = value_of
    ax = [
        z3.ForAll([n], z3.And(akind(n) >= 0, akind(n) < len(KINDS), aop(n) >= 0, aop(n) < len(OPS), anvals(n) >= 0), patterns=[akind(n)]),
        # value of an expression under an assignment of its names
        z3.ForAll([n, sg], z3.Implies(z3.And(akind(n) == K('BinOp'), aop(n) == OPC('BitAnd')), V(n, sg) == z3.And(V(aleft(n), sg), V(aright(n), sg))),
                  patterns=[V(n, sg)]),
        z3.ForAll([n, sg], z3.Implies(z3.And(akind(n) == K('BinOp'), aop(n) == OPC('BitOr')), V(n, sg) == z3.Or(V(aleft(n), sg), V(aright(n), sg))),
                  patterns=[V(n, sg)]),
        z3.ForAll([n, sg], z3.Implies(z3.And(akind(n) == K('UnaryOp'), z3.Or(aop(n) == OPC('Not'), aop(n) == OPC('Invert'))),
                                      V(n, sg) == z3.Not(V(aoperand(n), sg))), patterns=[V(n, sg)]),
        z3.ForAll([n, sg], z3.Implies(akind(n) == K('Name'),
                                      V(n, sg) == z3.If(aid(n) == TRUE_ID, z3.BoolVal(True), z3.If(aid(n) == FALSE_ID, z3.BoolVal(False), sg[aid(n)]))),
                  patterns=[V(n, sg)]),
        z3.ForAll([n, sg], z3.Implies(z3.And(akind(n) == K('Constant'), aconst(n) <= 1, aconst(n) >= 0), V(n, sg) == (aconst(n) == 1)), patterns=[V(n, sg)]),
        # n-ary and / or: folds over the operand list
        z3.ForAll([n, sg], z3.Implies(z3.And(akind(n) == K('BoolOp'), aop(n) == OPC('And')), V(n, sg) == pre_and(n, anvals(n), sg)), patterns=[V(n, sg)]),
        z3.ForAll([n, sg], z3.Implies(z3.And(akind(n) == K('BoolOp'), aop(n) == OPC('Or')), V(n, sg) == pre_or(n, anvals(n), sg)), patterns=[V(n, sg)]),
        z3.ForAll([n, sg], z3.And(pre_and(n, 0, sg), z3.Not(pre_or(n, 0, sg))), patterns=[pre_and(n, 0, sg)]),
        z3.ForAll([n, sg], z3.Not(pre_or(n, 0, sg)), patterns=[pre_or(n, 0, sg)]),
        # the accepted syntax
        z3.ForAll([n], z3.Implies(akind(n) == K('BinOp'),
                                  syntax_ok(n) == z3.And(z3.Or(aop(n) == OPC('BitAnd'), aop(n) == OPC('BitOr')), syntax_ok(aleft(n)), syntax_ok(aright(n)))),
                  patterns=[syntax_ok(n)]),
        z3.ForAll([n], z3.Implies(akind(n) == K('UnaryOp'),
                                  syntax_ok(n) == z3.And(z3.Or(aop(n) == OPC('Not'), aop(n) == OPC('Invert')), syntax_ok(aoperand(n)))), patterns=[syntax_ok(n)]),
        z3.ForAll([n], z3.Implies(akind(n) == K('Name'), syntax_ok(n)), patterns=[syntax_ok(n)]),
        z3.ForAll([n], z3.Implies(akind(n) == K('Constant'), syntax_ok(n) == z3.And(aconst(n) >= 0, aconst(n) <= 1)), patterns=[syntax_ok(n)]),
        z3.ForAll([n], z3.Implies(akind(n) == K('Other'), z3.Not(syntax_ok(n))), patterns=[syntax_ok(n)]),
        # BoolOp: and/or, every operand accepted (elimination by index, introduction by a witness)
        z3.ForAll([n], z3.Implies(z3.And(akind(n) == K('BoolOp'), syntax_ok(n)), z3.Or(aop(n) == OPC('And'), aop(n) == OPC('Or'))), patterns=[syntax_ok(n)]),
        z3.ForAll([n, i], z3.Implies(z3.And(akind(n) == K('BoolOp'), syntax_ok(n), 0 <= i, i < anvals(n)), syntax_ok(aval(n, i))),
                  patterns=[z3.MultiPattern(syntax_ok(n), aval(n, i))]),
        z3.ForAll([n], z3.Implies(z3.And(akind(n) == K('BoolOp'), z3.Or(aop(n) == OPC('And'), aop(n) == OPC('Or')),
                                         z3.Not(z3.And(0 <= w_bad(n), w_bad(n) < anvals(n), z3.Not(syntax_ok(aval(n, w_bad(n))))))), syntax_ok(n)),
                  patterns=[syntax_ok(n)]),
    ]
    return ax


def fold_step(kind):
    """the recursive clause of the n-ary fold; instantiated syntactically (at the node and the loop counter) by a cut"""
    n = z3.Const('n!fold', A)
    i = z3.Int('i!fold')
    sg = z3.Const('sigma!fold', hp.SetH)
    pre = pre_and if kind == 'And' else pre_or
    comb = z3.And if kind == 'And' else z3.Or
    return z3.ForAll([n, i], z3.Implies(i >= 0, z3.ForAll([sg], pre(n, i + 1, sg) == comb(pre(n, i, sg), value_of(aval(n, i), sg)))))


class AstExt(Extension):
    def on(self, ex):
        return ex.k.hints.get('ext') == 'bdd' and ex.k.hints.get('ast')

    def global_name(self, E, k, name):
        if k.hints.get('ext') == 'bdd' and k.hints.get('ast') and name == 'ast':
            return SV('module', None, 'ast')
        return None

    def param_value(self, E, ex, name, ty, heap, pc):
        if ty == 'anode':
            return SV('anode', hp.fresh(name, A))
        return None

    def attribute(self, E, ex, base, attr, path, node):
        if not self.on(ex):
            return None
        if base.ty == 'module' and base.x == 'ast':
            if attr in KINDS or attr in OPS:
                return SV('aclass', None, attr)
            return SV('aclass', None, 'unknown:' + attr)
        if base.ty == 'anode':
            n = base.t
            if attr == 'op':
                return SV('aopv', n)
            if attr in ('left', 'right', 'operand'):
                return SV('anode', {'left': aleft, 'right': aright, 'operand': aoperand}[attr](n))
            if attr == 'values':
                return SV('seqval', None, (anvals(n), lambda j, n=n: SV('anode', aval(n, j))))
            if attr == 'id':
                return SV('H', aid(n))
            if attr == 'value':
                return SV('aconstv', n)
            return SV('str')
        if base.ty in ('aopv', 'aconstv'):
            return SV('str')
        return None

    def isinstance(self, E, ex, a, cls, path, node):
        if not self.on(ex) or cls.ty != 'aclass':
            return None
        if a.ty == 'anode':
            return SV('bool', akind(a.t) == K(cls.x) if cls.x in KINDS else z3.BoolVal(False))
        if a.ty == 'aopv':
            return SV('bool', aop(a.t) == OPC(cls.x) if cls.x in OPS else z3.BoolVal(False))
        return None

    def member(self, E, ex, a, b, path, node):
        if self.on(ex) and a.ty == 'aconstv' and b.ty == 'clist' and [str(v.t) for v in b.x] == ['0', '1']:
            return z3.And(aconst(a.t) >= 0, aconst(a.t) <= 1)
        return None

    def equal(self, E, ex, a, b, path, node):
        if self.on(ex) and a.ty == 'H' and b.ty == 'str' and b.t is not None:
            return a.t == b.t
        return None


def install(E):
    E.ext.append(AstExt())
    FILE = 'BDD/OBDD.py'
    common = {'ext': 'bdd', 'ast': True}
    SG = z3.Const('sigma!op', hp.SetH)

    # a few names of contracts_bdd's install() scope are needed: rebuild the shared clauses here
    def node_state(h):
        b = z3.Bool('b!tn')
        t = h['tn_ref'][b]
        valid = lambda x: z3.And(x >= 0, x < h.alloc, h['b_node'][x])      # noqa
        return [('table_invariant', cb.inv(h)), ('ghost_denotations', cb.den_inv(h)), ('ghost_orderings', cb.resp_inv(h)),
                ('children_are_nodes', cb.children_ok(h)),
                ('terminal_table', z3.ForAll([b], z3.Implies(h['tn_has'][b], z3.And(valid(t), cb.term(h, t), cb.val(h, t) == b)),
                                             patterns=[h['tn_has'][b]]))]

    def obdd_ok(h, o):
        return z3.And(o >= 0, o < h.alloc, z3.Not(h['b_node'][o]), cb.node_ok(h, h['o_root'][o]))

    def nodes_kept(h0, h1):
        n = z3.Int('n!kept')
        return [('old_nodes_kept', z3.ForAll([n], z3.Implies(z3.And(n >= 0, n < h0.alloc, h0['b_node'][n]), z3.And(
                    cb.var(h1, n) == cb.var(h0, n), cb.low(h1, n) == cb.low(h0, n), cb.high(h1, n) == cb.high(h0, n),
                    cb.term(h1, n) == cb.term(h0, n), cb.val(h1, n) == cb.val(h0, n), cb.den(h1, n) == cb.den(h0, n),
                    cb.resp(h1, n) == cb.resp(h0, n), h1['b_node'][n])), patterns=[cb.den(h1, n)])),
                ('old_nodes_stay_nodes', z3.ForAll([n], z3.Implies(cb.node_ok(h0, n), cb.node_ok(h1, n)), patterns=[cb.low(h1, n)])),
                ('alloc', h1.alloc >= h0.alloc)]

    def req(c):
        out = node_state(c.h0)
        if c.side == 'callee':
            out.append(('documented_expression_semantics', z3.And(spec_axioms())))
            out.append(('and_fold_step', fold_step('And')))
            out.append(('or_fold_step', fold_step('Or')))
        return out

    def ens(c):
        h0, h1, r = c.h0, c.h1, c.res.t
        rt = h1['o_root'][r]
        return node_state(h1) + nodes_kept(h0, h1) + [
            ('result_is_a_new_OBDD', z3.And(r >= h0.alloc, obdd_ok(h1, r), h1['o_ord'][r] == c.ordering.t)),
            ('denotes_the_expression', z3.ForAll([SG], cb.den(h1, rt)[SG] == value_of(c.node.t, SG), patterns=[cb.den(h1, rt)[SG]]))]

    def frame_(c):
        from .contracts_graph import frame
        anyref = lambda r: z3.BoolVal(True)         # noqa
        return frame(c.h0, c.h1, c.h0.alloc, {'b_fl': anyref, 'b_fh': anyref, 'rd_dom': anyref, 'rd_val': anyref})

    OT = {'b_var', 'b_low', 'b_high', 'b_fl', 'b_fh', 'b_term', 'b_den', 'b_node', 'b_resp', 'rd_dom', 'rd_val', 'b_val',
          'tn_has', 'tn_ref', 'o_root', 'o_ord'}

    def fold_inv(kind):
        def inv_(lc):
            c, h, he = lc.c, lc.h, lc.h_entry
            n = c.node.t
            r = lc.env['result'].t
            rt = h['o_root'][r]
            pre = pre_and if kind == 'And' else pre_or
            j = z3.Int('j!fold')
            return node_state(h) + nodes_kept(c.h0, h) + [
                ('result_is_an_OBDD', z3.And(r >= c.h0.alloc, obdd_ok(h, r), h['o_ord'][r] == c.ordering.t)),
                ('denotes_the_fold_so_far', z3.ForAll([SG], cb.den(h, rt)[SG] == pre(n, lc.seen, SG), patterns=[cb.den(h, rt)[SG]])),
                ('operands_so_far_accepted', z3.ForAll([j], z3.Implies(z3.And(0 <= j, j < lc.seen), syntax_ok(aval(n, j))), patterns=[aval(n, j)])),
                ('alloc', h.alloc >= he.alloc)] + [('since_entry:' + a_, b_) for a_, b_ in frame_(type('C', (), {'h0': c.h0, 'h1': h})())]
        return inv_

    def fold_cut(kind, ordinal):
        def cut(c, path):
            return fold_step(kind), [c.node.t, path.ghosts['seen%d' % ordinal]]
        return cut

    specs = [
        ('parse_name', lambda c: akind(c.node.t) == K('Name'), {}),
        ('parse_binary_unary_op', lambda c: akind(c.node.t) == K('UnaryOp'), {}),
        ('parse_binary_op', lambda c: akind(c.node.t) == K('BinOp'), {}),
        ('parse_binary_binary_op', lambda c: akind(c.node.t) == K('BoolOp'), {1: fold_inv('And'), 2: fold_inv('Or')}),
        ('parse_binary_expr', lambda c: z3.BoolVal(True), {}),
    ]
    names = []
    for fn, kindreq, loops in specs:
        E.register(Contract(
            fn, 'obdd', [('ordering', 'ordering'), ('node', 'anode')], ret='obdd',
            requires=lambda c, kindreq=kindreq: req(c) + [('node_kind', kindreq(c))], ensures=ens, frame=frame_,
            raises={'SyntaxError': lambda c: z3.Not(syntax_ok(c.node.t))},
            loops=loops, loop_touches={1: set(OT), 2: set(OT)}, touches=set(OT),
            hints=dict(common, may_raise=('ValueError', 'RuntimeError'), schemas=('and_fold_step', 'or_fold_step'),
                       cuts=({'loop1:denotes_the_fold_so_far:preserved': [fold_cut('And', 1)],
                              'loop2:denotes_the_fold_so_far:preserved': [fold_cut('Or', 2)]} if loops else {})),
            raise_unchanged=False, owner='C18',
            note='Python ast nodes as values of an uninterpreted sort; value_of / boolean_syntax are the specification (trusted)'), FILE)
        names.append(fn)
    return names
