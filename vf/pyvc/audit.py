"""Axiom audit (vacuity guard, DESIGN.md 2.9): every axiom bundle the proofs assume must NOT be
refutable.  z3 is asked, in its default configuration (model-based quantifier instantiation on)
and with e-matching only, to derive a contradiction from each bundle alone and from the bundles
together; `unsat` means the trusted base is inconsistent, every discharged obligation would be
meaningless, and the check exits 3.  (`unknown` is the expected answer: it is not a consistency
proof.)  This guard exists because one such inconsistency was actually made and caught: a length
axiom for n-ary constructors without the guard k >= 0."""
import time

import z3

from . import heap as hp


def bundles():
    from . import formula as fm
    from . import formula_sem as fs
    from . import contracts_ctl as cc
    V = z3.Const('V!audit', hp.SetH)
    E = z3.Const('E!audit', hp.Rel)
    Lab = z3.Const('Lab!audit', z3.ArraySort(hp.H, hp.SetH))
    base = [hp.pick_axiom(), hp.empty_rel_axiom()] + hp.isend_axioms()
    ctl = fm.syntax_axioms() + cc.rng_axioms() + fm.semantic_axioms(V, lambda s, d: E[s, d], lambda s: Lab[s])
    sem = fs.axioms() + fs.induction_hypothesis() + fs.lnot_contract_facts() + fs.path_state_axioms(V)
    f = z3.Const('f!audit', hp.F)
    Ep = z3.Const('Ephi!audit', hp.Rel)
    eg = [cl for _, cl in cc.eg_trusted(f, lambda s, d: z3.And(V[s], E[s, d]), Ep)] + [fm.wfS(f), fm.is_tag(f, 'E'), fm.is_tag(fm.kid0(f), 'G'),
                                                                                          # some state satisfies E G phi (gives e-matching ground terms to work from)
                                                                                          fm.sat(f)[z3.Const('s!audit', hp.H)]]
    return {'heap_helpers': base, 'ctl_semantics': base + ctl, 'path_semantics': base + sem,
            'closure_and_EG_lemmas': base + ctl + eg}


def run_one(arg):
    name, timeout_ms = arg
    ax = bundles()[name]
    out = []
    for cfg_name, cfg in (('default', {}), ('ematching', {'auto_config': False, 'mbqi': False})):
        s = z3.Solver()
        s.set('timeout', timeout_ms)
        for k, v in cfg.items():
            s.set(k, v)
        for a in ax:
            s.add(a)
        t0 = time.time()
        from .driver import hard_check
        r = hard_check(s, timeout_ms)
        out.append((name, cfg_name, str(r), round(time.time() - t0, 1)))
    return out


def run(ctx, timeout_ms=10000):
    res = ctx.pmap(run_one, [(n, timeout_ms) for n in ('heap_helpers', 'ctl_semantics', 'path_semantics', 'closure_and_EG_lemmas')], chunksize=1)
    flat = [x for r in res for x in r]
    bad = [x for x in flat if x[2] == 'unsat']
    ctx.notes.append('axiom audit (must not be refutable): ' + '; '.join('%s/%s=%s(%.1fs)' % x for x in flat))
    if bad:
        raise RuntimeError('axiom audit: the trusted axioms are inconsistent: %r' % (bad,))
