"""pyvc - verification-condition generator for the Python subset used by the
functions under contract (DESIGN.md 2.2-2.5).

Every run re-reads the real source files under $VERIF_REPO/pyModelChecking with
`ast`, locates each function under contract by qualified name, executes its body
symbolically against the sidecar contracts (vf/pyvc/contracts_*.py) and emits
one small z3 query per obligation.  Nothing is cached across runs.

A construct outside the supported subset raises Unsupported: the function is
then reported as an extraction failure (undecided), never silently skipped.
"""
import ast
import hashlib
import os
import re
import time

import z3

from . import heap as hp
from .heap import SV, Coll, Heap, H, F

I = z3.IntSort()


class Unsupported(Exception):
    pass


# ----------------------------------------------------------------------------
# contracts

class Contract(object):
    """Sidecar contract of one function (see contracts_*.py)."""

    def __init__(self, qualname, module, params, ret=None, requires=None,
                 ensures=None, raises=None, raise_unchanged=True, loops=None,
                 generator=None, pure=False, may_write=None, frame=None, hints=None,
                 owner=None, skolems=None, assumed=False, note=None, touches=None, loop_touches=None):
        self.qualname = qualname        # e.g. 'DiGraph.get_subgraph'
        self.module = module            # e.g. 'graph'
        self.params = params            # [(name, type)]  first may be ('self','graph')
        self.ret = ret                  # result type or None
        self.requires = requires or (lambda c: [])
        self.ensures = ensures or (lambda c: [])
        self.raises = raises or {}      # exc name -> cond(c)
        self.raise_unchanged = raise_unchanged
        self.loops = loops or {}
        self.generator = generator      # None | 'H' | 'pair' | 'ref'
        self.pure = pure                # allocates/modifies nothing reachable
        self.may_write = may_write      # fn(c, comp, ref) -> z3 Bool: old locations the body may write (None: none)
        self.frame = frame              # fn(c) -> list of clauses relating h0 and h1 (None: everything old unchanged)
        self.hints = hints or {}
        self.owner = owner
        self.skolems = skolems          # fn(c) -> None: create skolem witnesses on c (callee side)
        self.assumed = assumed          # contract not proved (body out of reach)
        self.touches = touches          # heap components in which the caller can observe a change/allocation (None: all)
        self.loop_touches = loop_touches or {}
        self.note = note


class CallCtx(object):
    """what a contract clause can talk about"""

    def __init__(self, contract, args, h0):
        self.k = contract
        self.a = args                   # name -> SV
        self.h0 = h0                    # heap at entry
        self.h1 = None                  # heap at exit
        self.res = None                 # SV
        self.yH = None                  # yielded set (generators of H)
        self.yP = None                  # yielded relation (generators of pairs)
        self.yR = None                  # yielded references
        self.side = 'callee'            # or 'caller'
        self.sk = {}                    # skolem constants
        self.extra_hints = []

    def __getattr__(self, name):
        a = self.__dict__.get('a', {})
        if name in a:
            return a[name]
        raise AttributeError(name)


# ----------------------------------------------------------------------------
# paths

class Path(object):
    def __init__(self, env, heap, pc, ghosts=None):
        self.env = env
        self.heap = heap
        self.pc = pc
        self.ghosts = ghosts or {}
        self.exc = []           # pending exceptional outcomes [(excname, Path)]

    def fork(self, extra=None):
        p = Path(dict(self.env), self.heap, list(self.pc), dict(self.ghosts))
        if extra is not None:
            p.pc.append(extra)
        return p


class Obligation(object):
    def __init__(self, name, assumptions, goal, tags, function, line=None):
        self.name = name
        self.assumptions = assumptions
        self.goal = goal
        self.tags = tags
        self.function = function
        self.line = line
        self.status = None
        self.backend = ''
        self.seconds = 0.0
        self.detail = None
        self.alt_assumptions = None


# ----------------------------------------------------------------------------
# source access

class Source(object):
    def __init__(self, repo):
        self.repo = repo
        self.trees = {}
        self.texts = {}

    def module_ast(self, relpath):
        if relpath not in self.trees:
            path = os.path.join(self.repo, 'pyModelChecking', relpath)
            with open(path) as fh:
                text = fh.read()
            self.texts[relpath] = text
            self.trees[relpath] = ast.parse(text)
        return self.trees[relpath]

    def find(self, relpath, qualname):
        """FunctionDef for 'Class.method', 'function', or
        'Class.method.<locals>.inner'"""
        tree = self.module_ast(relpath)
        parts = [p for p in qualname.split('.') if p != '<locals>']
        node = tree
        for p in parts:
            found = None
            for ch in ast.iter_child_nodes(node) if not isinstance(node, ast.Module) else node.body:
                if isinstance(ch, (ast.FunctionDef, ast.ClassDef)) and ch.name == p:
                    found = ch
                    break
            if found is None and isinstance(node, ast.FunctionDef):
                for ch in ast.walk(node):
                    if isinstance(ch, ast.FunctionDef) and ch.name == p and ch is not node:
                        found = ch
                        break
            if found is None:
                raise Unsupported('function %s not found in %s' % (qualname, relpath))
            node = found
        if not isinstance(node, ast.FunctionDef):
            raise Unsupported('%s is not a function' % qualname)
        return node

    def sha(self, relpath, fnode):
        seg = ast.get_source_segment(self.texts[relpath], fnode) or ''
        return hashlib.sha256(seg.encode()).hexdigest()[:16]


# ----------------------------------------------------------------------------
# the executor

EXC_PARENTS = {'RuntimeError': 'Exception', 'TypeError': 'Exception', 'KeyError': 'Exception',
               'StopIteration': 'Exception', 'AttributeError': 'Exception', 'IndexError': 'Exception',
               'ValueError': 'Exception', 'SyntaxError': 'Exception', 'Exception': None,
               # lark's parse errors (external) and the package's ParserError subclasses
               'lark.UnexpectedToken': 'Exception', 'lark.UnexpectedCharacters': 'Exception',
               'pkg.ParserError': 'Exception', 'pkg.UnexpectedToken': 'pkg.ParserError', 'pkg.UnexpectedCharacters': 'pkg.ParserError'}


def exc_matches(name, handler):
    while name is not None:
        if name == handler:
            return True
        name = EXC_PARENTS.get(name)
    return False


class Executor(object):
    """symbolic execution of one function body against its contract"""

    def __init__(self, engine, contract, fnode, relpath):
        self.E = engine
        self.k = contract
        self.fnode = fnode
        self.relpath = relpath
        self.obls = []
        self.loop_ordinals = {}
        n = 0
        for node in ast.walk(fnode):
            pass
        # ordinals in source order
        loops = [nd for nd in ast.walk(fnode) if isinstance(nd, (ast.For, ast.While)) and self._owner_is(fnode, nd)]
        loops.sort(key=lambda nd: (nd.lineno, nd.col_offset))
        for i, nd in enumerate(loops):
            self.loop_ordinals[id(nd)] = i + 1
        self.ctx = None
        self.axioms = []
        self.probes = []        # (name, assumptions): must not be refutable (vacuity guard)
        self.heavy_ids = set()  # assumptions (semantic axiom bundles) that frame obligations do not need
        self.heavy2_ids = set() # further bulky requires clauses, dropped only where hints['slice_more'] matches
        self.noraise_ids = set()    # "the callee did not raise" facts (bulky negated raise conditions); cut lemmas
                                    # named by hints['slice_noraise'] are proved without them
        self.assumed_called = {}    # assumed (unverified) callee contracts this function's proof uses
        self.schema_ids = set() # second-order schemas among the requires: never given to the solver as they are
                                # (no usable trigger); only their syntactic instances made by cut lemmas are

    def _owner_is(self, fnode, nd):
        # loops of nested function definitions belong to the nested function
        for inner in ast.walk(fnode):
            if isinstance(inner, (ast.FunctionDef, ast.Lambda)) and inner is not fnode:
                for x in ast.walk(inner):
                    if x is nd:
                        return False
        return True

    # -- obligations ---------------------------------------------------------
    def oblige(self, name, path, goal, tags=('functional',), line=None, extra=None):
        pcs = path.pc
        extra_slice = self.k.hints.get('slice_heavy')
        if self.heavy_ids and ('frame' in tags or ':unchanged:' in name or name.endswith('iterated_container_unchanged')
                               or ':alloc:' in name or (extra_slice and re.search(extra_slice, name))):
            # assumption slicing (sound: fewer assumptions): pure heap-frame goals do not need the semantics axioms
            pcs = [a for a in path.pc if a.get_id() not in self.heavy_ids]
        if self.schema_ids:
            pcs = [a for a in pcs if a.get_id() not in self.schema_ids]
        nr_ = self.k.hints.get('slice_noraise')
        if nr_ and self.noraise_ids and re.search(nr_, name):
            pcs = [a for a in pcs if a.get_id() not in self.noraise_ids]
        more_ = self.k.hints.get('slice_more_main')
        if more_ and self.heavy2_ids and re.search(more_, name):
            pcs = [a for a in pcs if a.get_id() not in self.heavy2_ids]
        assumptions = list(self.axioms) + list(pcs) + list(extra or [])
        # line numbers in names are relative to the function's first line, so that
        # unrelated edits elsewhere in the file do not rename obligations
        base = self.fnode.lineno
        name = re.sub(r':L(\d+)', lambda m: ':L+%d' % (int(m.group(1)) - base), name)
        # cut lemmas from the sidecar: each is proved first (its own obligation) and may then be used
        cuts_only = list(self.axioms)
        for pattern, fns in self.k.hints.get('cuts', {}).items():
            if name.startswith(pattern):
                for i, fn in enumerate(fns):
                    try:
                        G = fn(self.ctx, path)
                    except KeyError:
                        continue
                    inst = None
                    if isinstance(G, tuple):
                        G, inst = G        # (forall lemma, terms to instantiate it at)
                    if not any(z3.eq(G, a_) for a_ in assumptions) and not (
                            G.get_id() in self.schema_ids and any(z3.eq(G, a_) for a_ in path.pc)):
                        # (a cut that is literally one of the assumptions needs no proof)
                        cut_assumptions = list(assumptions)
                        if extra_slice and self.heavy_ids and re.search(extra_slice, '%s:cut%d' % (name, i + 1)):
                            cut_assumptions = [a_ for a_ in cut_assumptions if a_.get_id() not in self.heavy_ids]
                        nr = self.k.hints.get('slice_noraise')
                        if nr and re.search(nr, '%s:cut%d' % (name, i + 1)):
                            cut_assumptions = [a_ for a_ in cut_assumptions if a_.get_id() not in self.noraise_ids]
                        more = self.k.hints.get('slice_more')
                        if more and re.search(more, '%s:cut%d' % (name, i + 1)):
                            cut_assumptions = [a_ for a_ in cut_assumptions if a_.get_id() not in self.heavy2_ids]
                        self.obls.append(Obligation('%s:%s:cut%d' % (self.k.qualname, name, i + 1), cut_assumptions, G,
                                                    ('lemma',), self.k.qualname, line))
                    if G.get_id() not in self.schema_ids:
                        assumptions = assumptions + [G]
                        cuts_only.append(G)
                    if inst is not None:
                        # forall-elimination, done syntactically (sound by construction)
                        gi = z3.substitute_vars(G.body(), *reversed(inst))
                        assumptions = assumptions + [gi]
                        cuts_only.append(gi)
        if z3.is_and(goal) and goal.num_args() > 1:
            # one small query per conjunct
            for i, g in enumerate(goal.children()):
                self.obls.append(Obligation('%s:%s#%d' % (self.k.qualname, name, i + 1), assumptions, g, tuple(tags),
                                            self.k.qualname, line))
            return None
        o = Obligation('%s:%s' % (self.k.qualname, name), assumptions, goal, tuple(tags), self.k.qualname, line)
        if len(cuts_only) > len(self.axioms):
            o.alt_assumptions = cuts_only      # second attempt: from the proved cut lemmas alone
        self.obls.append(o)
        return o

    # -- values ----------------------------------------------------------------
    def fresh_of(self, ty, heap, name='v'):
        """fresh symbolic value of a static type (havoc)"""
        if ty == 'H':
            return SV('H', hp.fresh(name, H))
        if ty == 'F':
            return SV('F', hp.fresh(name, F))
        if ty == 'bool':
            return SV('bool', hp.fresh(name, z3.BoolSort()))
        if ty == 'int':
            return SV('int', hp.fresh(name, I))
        if ty == 'str':
            return SV('str')
        if ty == 'none':
            return hp.NONE
        if ty in hp.REF_TYPES:
            return SV(ty, hp.fresh(name, I))
        if ty == 'pair':
            return SV('pair', (hp.fresh(name + '0', H), hp.fresh(name + '1', H)))
        if ty == 'item':
            return SV('item', (hp.fresh(name + 'k', H), hp.fresh(name + 'r', I)))
        if ty == 'bnodeopt':
            return SV('bnodeopt', hp.fresh(name, I))
        if ty == 'coll:pair':
            return SV('coll', None, Coll('pair', hp.fresh(name, hp.Rel), True))
        if ty == 'coll:H':
            return SV('coll', None, Coll('H', hp.fresh(name, hp.SetH), True))
        raise Unsupported('cannot havoc a value of type %s' % ty)

    def truth(self, sv, path, name=None):
        """z3 Bool for the truthiness of a value"""
        if sv.ty == 'bool':
            return sv.t
        if sv.ty == 'list' or sv.ty == 'set':
            S = path.heap.set_of(sv.t)
            x = hp.fresh('x!t', H)
            # instance of the choice axiom for this very set (its elements may be given by a lambda)
            path.pc.append(z3.ForAll([x], z3.Implies(S[x], hp.nonempty(S))))
            # name the witness: instantiation of other quantifiers at pick(<lambda>) is unreliable
            w = hp.fresh('witness', H)
            path.pc.append(w == hp.pick(S))
            if name:
                path.ghosts['w:' + name] = w
            return S[w]
        if sv.ty in ('reflist', 'refset'):
            S = path.heap['refsets'][sv.t]
            xr = z3.Int('x!tr')
            path.pc.append(z3.ForAll([xr], z3.Implies(S[xr], hp.nonemptyR(S)), patterns=[S[xr]]))
            return hp.nonemptyR(S)
        if sv.ty == 'none':
            return z3.BoolVal(False)
        if sv.ty == 'int':
            return sv.t != 0
        if sv.ty == 'opt':
            return z3.And(z3.Not(sv.x[0]), self.truth(sv.x[1], path)) if sv.x[1].ty in ('list', 'set', 'bool', 'int') \
                else z3.Not(sv.x[0])
        raise Unsupported('truthiness of %s' % sv.ty)

    def as_coll(self, sv, path, what='iterate'):
        h = path.heap
        if sv.ty == 'coll':
            return sv.x
        if sv.ty == 'set':
            return Coll('H', h.set_of(sv.t), True, src=('sets', sv.t))
        if sv.ty == 'list':
            return Coll('H', h.set_of(sv.t), False, src=('sets', sv.t))
        if sv.ty == 'dlist':
            return Coll('H', h.set_of(sv.t), True, src=('sets', sv.t))
        if sv.ty == 'keys':
            return Coll('H', h.ddom(sv.t), True, src=('dd', sv.t))
        if sv.ty == 'dict':
            return Coll('H', h.ddom(sv.t), True, src=('dd', sv.t))
        if sv.ty == 'pairlist':
            return Coll('pair', h.rel_of(sv.t), False, src=('rels', sv.t))
        if sv.ty == 'items':
            return Coll('item', h.ddom(sv.t), True, src=('dd', sv.t), pair_second=sv.t)
        if sv.ty == 'fseq':
            ref = sv.t
            return Coll('seq', None, True, src=('fs_el', ref), length=h['fs_len'][ref],
                        elem=lambda j, h=h, ref=ref: SV('F', h['fs_el'][ref][j]))
        if sv.ty == 'seqval':
            return Coll('seq', None, True, length=sv.x[0], elem=sv.x[1])
        if sv.ty == 'values':
            return Coll('value', h.ddom(sv.t), True, src=('dd', sv.t), pair_second=sv.t)
        if sv.ty == 'wset':
            comp, ref = sv.x
            return Coll('ref', h[comp][ref], True, src=(comp, ref), elem_ty='bnode')
        if sv.ty == 'reflist':
            return Coll('ref', h['refsets'][sv.t], False, src=('refsets', sv.t), elem_ty=sv.x)
        if sv.ty == 'refset':
            return Coll('ref', h['refsets'][sv.t], True, src=('refsets', sv.t), elem_ty='bnode')
        raise Unsupported('cannot %s a value of type %s' % (what, sv.ty))

    # -- expression evaluation -------------------------------------------------
    def ev(self, e, path):
        m = getattr(self, 'ev_' + type(e).__name__, None)
        if m is None:
            raise Unsupported('expression %s at line %d' % (type(e).__name__, getattr(e, 'lineno', 0)))
        return m(e, path)

    def ev_Constant(self, e, path):
        v = e.value
        if v is None:
            return hp.NONE
        if isinstance(v, bool):
            return SV('bool', z3.BoolVal(v))
        if isinstance(v, int):
            return SV('int', z3.IntVal(v))
        if isinstance(v, str):
            # the literal as a hashable value too (a label): one constant per distinct text, nothing else assumed
            return SV('str', z3.Const('strlit!%s' % v[:40], H), v)
        raise Unsupported('constant %r' % (v,))

    def ev_Name(self, e, path):
        if e.id in path.env:
            return path.env[e.id]
        g = self.E.global_name(self.k, e.id)
        if g is not None:
            return g
        raise Unsupported('unknown name %s at line %d' % (e.id, e.lineno))

    def ev_Tuple(self, e, path):
        vs = [self.ev(x, path) for x in e.elts]
        if len(vs) == 2 and all(v.ty == 'H' for v in vs):
            return SV('pair', (vs[0].t, vs[1].t))
        return SV('tuple', None, vs)

    def ev_List(self, e, path):
        vs = [self.ev(x, path) for x in e.elts]
        if not vs and self.k.hints.get('list_kind') == 'fseq':
            r, h = path.heap.new()
            path.heap = h.with_(fs_len=z3.Store(h['fs_len'], r, z3.IntVal(0)))
            return SV('fseq', r)
        if not vs:
            return SV('clist', None, [])
        if self.k.hints.get('list_kind') == 'reflist' and all(v.ty == 'bnode' for v in vs):
            r, h = path.heap.new()
            S = z3.K(I, z3.BoolVal(False))
            for v in vs:
                S = z3.Store(S, v.t, True)
            path.heap = h.with_(refsets=z3.Store(h['refsets'], r, S), b_node=z3.Store(h['b_node'], r, z3.BoolVal(False)))
            return SV('reflist', r, 'bnode')
        return SV('clist', None, vs)

    def ev_JoinedStr(self, e, path):
        return SV('str')

    def ev_Attribute(self, e, path):
        base = self.ev(e.value, path)
        return self.E.attribute(self, base, e.attr, path, e)

    def ev_Subscript(self, e, path):
        base = self.ev(e.value, path)
        idx = self.ev(e.slice, path)
        h = path.heap
        if base.ty == 'dict' and idx.ty == 'H':
            indom = h.ddom(base.t)[idx.t]
            self.may_raise('KeyError', z3.Not(indom), path, e)
            return SV('set', h.dval(base.t)[idx.t])
        if base.ty == 'fdict' and idx.ty == 'F':
            indom = h.fdom(base.t)[idx.t]
            self.may_raise('KeyError', z3.Not(indom), path, e)
            return SV('set', h.fval(base.t)[idx.t])
        if base.ty == 'anydict' and idx.ty == 'H':
            self.may_raise('KeyError', z3.Not(base.x['dom'][idx.t]), path, e)
            return SV('anyval', None, (base, idx.t))
        if base.ty == 'clist' and idx.ty == 'int' and z3.is_int_value(idx.t):
            i = idx.t.as_long()
            if not (-len(base.x) <= i < len(base.x)):
                self.may_raise('IndexError', z3.BoolVal(True), path, e)
                raise Unsupported('index out of range at line %d' % e.lineno)
            return base.x[i]
        for x_ in self.E.ext:
            r = x_.subscript(self.E, self, base, idx, path, e)
            if r is not None:
                return r
        raise Unsupported('subscript %s[%s] at line %d' % (base.ty, idx.ty, e.lineno))

    def may_raise(self, exc, cond, path, node=None):
        """fork an exceptional outcome with pc & cond; continue with pc & ~cond"""
        p2 = path.fork(cond)
        path.exc.append((exc, p2, getattr(node, 'lineno', None)))
        path.pc.append(z3.Not(cond))

    def ev_Compare(self, e, path):
        if len(e.ops) != 1:
            raise Unsupported('chained comparison')
        op = e.ops[0]
        a = self.ev(e.left, path)
        b = self.ev(e.comparators[0], path)
        h = path.heap
        if isinstance(op, (ast.In, ast.NotIn)):
            t = self.member(a, b, path, e)
            return SV('bool', z3.Not(t) if isinstance(op, ast.NotIn) else t)
        if isinstance(op, (ast.Is, ast.IsNot)):
            t = self.identical(a, b, path)
            return SV('bool', z3.Not(t) if isinstance(op, ast.IsNot) else t)
        if isinstance(op, (ast.Eq, ast.NotEq)):
            t = self.E.equal(self, a, b, path, e)
            return SV('bool', z3.Not(t) if isinstance(op, ast.NotEq) else t)
        if a.ty == 'int' and b.ty == 'int':
            f = {ast.Lt: lambda x, y: x < y, ast.LtE: lambda x, y: x <= y,
                 ast.Gt: lambda x, y: x > y, ast.GtE: lambda x, y: x >= y}[type(op)]
            return SV('bool', f(a.t, b.t))
        raise Unsupported('comparison %s %s %s' % (a.ty, type(op).__name__, b.ty))

    def member(self, a, b, path, e):
        h = path.heap
        if b.ty == 'opt':
            # membership in an optional argument that the code has tested
            raise Unsupported('membership in optional value')
        if a.ty == 'str' and a.t is not None:
            a = SV('H', a.t)
        if a.ty in hp.REF_TYPES and b.ty in ('refset', 'reflist'):
            return h['refsets'][b.t][a.t]
        if a.ty in hp.REF_TYPES and b.ty == 'opt' and b.x[1].ty == 'refset':
            raise Unsupported('membership in optional value')
        if b.ty == 'constset' and a.ty == 'bool':
            return z3.Or([a.t == z3.BoolVal(bool(v)) for v in b.x if v in (0, 1)] or [z3.BoolVal(False)])
        if a.ty == 'H':
            if b.ty in ('set', 'list'):
                return h.set_of(b.t)[a.t]
            if b.ty in ('dict', 'keys'):
                return h.ddom(b.t)[a.t]
            if b.ty == 'coll' and b.x.kind == 'H':
                return b.x.mem[a.t]
        if a.ty == 'F' and b.ty == 'fdict':
            return h.fdom(b.t)[a.t]
        if a.ty == 'H' and b.ty == 'anydict':
            return b.x['dom'][a.t]
        if a.ty == 'F' and b.ty == 'H':
            raise Unsupported('formula in H')
        r = self.E.member_ext(self, a, b, path, e)
        if r is not None:
            return r
        raise Unsupported('membership %s in %s at line %d' % (a.ty, b.ty, e.lineno))

    def identical(self, a, b, path):
        if b.ty == 'none':
            if a.ty == 'none':
                return z3.BoolVal(True)
            if a.ty == 'bnodeopt':
                return a.t == -1
            if a.ty == 'opt':
                return a.x[0]
            if a.ty == 'H':
                return a.t == hp.NONE_H
            return z3.BoolVal(False)
        if a.ty == 'none':
            return self.identical(b, a, path)
        if a.ty in hp.REF_TYPES and b.ty in hp.REF_TYPES:
            return a.t == b.t
        if a.ty == 'H' and b.ty == 'H':
            # identity of two hashable VALUES (strings, numbers, tuples): implies equality, is not implied by it
            # (interning is an implementation detail) - an unconstrained Boolean below equality
            same = hp.fresh('same_object', z3.BoolSort())
            path.pc.append(z3.Implies(same, a.t == b.t))
            return same
        raise Unsupported('identity test %s is %s' % (a.ty, b.ty))

    def ev_BoolOp(self, e, path):
        # short-circuit: evaluate operands under the appropriate guards
        vals = []
        guards = []
        for i, x in enumerate(e.values):
            sub = path.fork()
            sub.pc.extend(guards)
            v = self.ev(x, sub)
            # exceptional outcomes of guarded operands propagate with the guard
            path.exc.extend(sub.exc)
            for gk, gv in sub.ghosts.items():
                path.ghosts.setdefault(gk, gv)
            # side conditions learned (~raise) are only valid under the guards
            learned = sub.pc[len(path.pc) + len(guards):]
            for c in learned:
                path.pc.append(z3.Implies(z3.And(guards) if guards else z3.BoolVal(True), c))
            t = self.truth(v, path)
            vals.append(t)
            guards.append(t if isinstance(e.op, ast.And) else z3.Not(t))
        return SV('bool', z3.And(vals) if isinstance(e.op, ast.And) else z3.Or(vals))

    def ev_UnaryOp(self, e, path):
        v = self.ev(e.operand, path)
        if isinstance(e.op, ast.Not):
            return SV('bool', z3.Not(self.truth(v, path)))
        if isinstance(e.op, ast.Invert):
            for x_ in self.E.ext:
                r = x_.method(self.E, self, v, '__invert__', [], {}, path, e)
                if r is not None:
                    return r
        raise Unsupported('unary operator')

    def ev_BinOp(self, e, path):
        a = self.ev(e.left, path)
        b = self.ev(e.right, path)
        h = path.heap
        if isinstance(e.op, (ast.Add, ast.Mod)) and (a.ty == 'str' or b.ty == 'str'):
            return SV('str')
        if a.ty == 'bool' and b.ty == 'bool' and isinstance(e.op, (ast.BitXor, ast.BitAnd, ast.BitOr)):
            f = {ast.BitXor: z3.Xor, ast.BitAnd: z3.And, ast.BitOr: z3.Or}[type(e.op)]
            return SV('bool', f(a.t, b.t))
        if a.ty == 'int' and b.ty == 'int':
            if isinstance(e.op, ast.Add):
                return SV('int', a.t + b.t)
            if isinstance(e.op, ast.Sub):
                return SV('int', a.t - b.t)
        if a.ty not in ('set', 'list', 'dlist', 'keys', 'dict', 'coll', 'pairlist'):
            for x_ in self.E.ext:
                r = x_.binop(self.E, self, type(e.op).__name__, a, b, path, e)
                if r is not None:
                    return r
        if isinstance(e.op, (ast.BitAnd, ast.Sub, ast.BitOr)):
            ca = self.as_coll(a, path, 'combine')
            cb = self.as_coll(b, path, 'combine')
            if ca.kind == 'H' and cb.kind == 'H':
                x = hp.fresh('x!b', H)
                if isinstance(e.op, ast.BitAnd):
                    body = z3.And(ca.mem[x], cb.mem[x])
                elif isinstance(e.op, ast.BitOr):
                    body = z3.Or(ca.mem[x], cb.mem[x])
                else:
                    body = z3.And(ca.mem[x], z3.Not(cb.mem[x]))
                return self.alloc_set(path, z3.Lambda([x], body))
        for x_ in self.E.ext:
            r = x_.binop(self.E, self, type(e.op).__name__, a, b, path, e)
            if r is not None:
                return r
        raise Unsupported('binary operator %s on %s, %s at line %d' % (type(e.op).__name__, a.ty, b.ty, e.lineno))

    def name_array(self, path, contents):
        """a set/relation given by a lambda is replaced by a fresh array constant with its
        defining axiom (trigger: a read of the constant) - e-matching friendly, no lambda in the heap"""
        if not z3.is_quantifier(contents):
            return contents
        nv = contents.num_vars()
        vs = [hp.fresh('x!d%d' % i, contents.var_sort(i)) for i in range(nv)]
        body = z3.substitute_vars(contents.body(), *reversed(vs))
        R = hp.fresh('defset', contents.sort())
        sel = R[vs[0]] if nv == 1 else R[vs[0], vs[1]]
        # triggers: a read of the constant, or a read of one of the defining sets at the same point
        alts = [sel]
        ids = set(v.get_id() for v in vs)

        def mentions_all(t):
            found = set()

            def walk(u):
                if u.get_id() in ids:
                    found.add(u.get_id())
                for ch in u.children():
                    walk(ch)
            walk(t)
            return found == ids

        def collect(t):
            if z3.is_app(t) and t.decl().kind() in (z3.Z3_OP_SELECT, z3.Z3_OP_UNINTERPRETED) and t.num_args() > 0 \
                    and mentions_all(t) and not hp._has_binder(t):
                alts.append(t)
                return
            if z3.is_app(t):
                for ch in t.children():
                    collect(ch)
        collect(body)
        path.pc.append(z3.ForAll(vs, sel == body, patterns=alts[:4]))
        return R

    def alloc_set(self, path, contents, ty='set'):
        contents = self.name_array(path, contents)
        r, h = path.heap.new()
        path.heap = h.with_(sets=z3.Store(h['sets'], r, contents))
        return SV(ty, r)

    def alloc_dict(self, path):
        r, h = path.heap.new()
        path.heap = h.with_(dd=z3.Store(h['dd'], r, hp.empty_set()))
        return SV('dict', r)

    def alloc_fdict(self, path):
        r, h = path.heap.new()
        path.heap = h.with_(fd=z3.Store(h['fd'], r, z3.K(F, z3.BoolVal(False))))
        return SV('fdict', r)

    def alloc_pairlist(self, path, contents):
        contents = self.name_array(path, contents)
        r, h = path.heap.new()
        path.heap = h.with_(rels=z3.Store(h['rels'], r, contents))
        return SV('pairlist', r)

    def ev_Lambda(self, e, path):
        return SV('lambda', None, e)

    def ev_IfExp(self, e, path):
        # `a if c else b`: both arms are evaluated on copies of the path; supported when the test is decided
        # statically or when both arms give values of one type without changing the heap
        c = self.truth(self.ev(e.test, path), path)
        cs = z3.simplify(c)
        if z3.is_true(cs):
            return self.ev(e.body, path)
        if z3.is_false(cs):
            return self.ev(e.orelse, path)
        pa, pb = path.fork(c), path.fork(z3.Not(c))
        a, b = self.ev(e.body, pa), self.ev(e.orelse, pb)
        if pa.heap is not path.heap or pb.heap is not path.heap or pa.exc or pb.exc:
            raise Unsupported('conditional expression with effects at line %d' % e.lineno)
        if a.ty == b.ty and a.t is not None and b.t is not None and a.ty in hp.REF_TYPES + ('H', 'bool', 'int', 'F'):
            return SV(a.ty, z3.If(c, a.t, b.t))
        raise Unsupported('conditional expression of types %s / %s at line %d' % (a.ty, b.ty, e.lineno))

    def ev_ListComp(self, e, path):
        return self.comprehension(e, path, 'list')

    def ev_SetComp(self, e, path):
        return self.comprehension(e, path, 'set')

    def ev_DictComp(self, e, path):
        return self.E.dict_comprehension(self, e, path)

    def comprehension(self, e, path, kind):
        if len(e.generators) != 1:
            raise Unsupported('nested comprehension')
        g = e.generators[0]
        src = self.ev(g.iter, path)
        coll = self.as_coll(src, path)
        if coll.kind == 'seq':
            for x_ in self.E.ext:
                r = x_.seq_comprehension(self.E, self, e, g, coll, path)
                if r is not None:
                    return r
            raise Unsupported('comprehension over a sequence at line %d' % e.lineno)
        # bind the target to an arbitrary element
        sub = path.fork()
        if coll.kind == 'pair':
            a, b = hp.fresh('a!c', H), hp.fresh('b!c', H)
            self.bind_target(g.target, SV('pair', (a, b)), sub)
            elem_in = coll.mem[a, b]
            bound = [a, b]
        elif coll.kind == 'H':
            a = hp.fresh('a!c', H)
            self.bind_target(g.target, SV('H', a), sub)
            elem_in = coll.mem[a]
            bound = [a]
        elif coll.kind == 'ref':
            a = hp.fresh('a!c', I)
            self.bind_target(g.target, SV(coll.elem_ty or 'bnode', a), sub)
            elem_in = coll.mem[a]
            bound = [a]
        else:
            raise Unsupported('comprehension over %s' % coll.kind)
        sub.pc.append(elem_in)
        cond = z3.BoolVal(True)
        for c in g.ifs:
            cond = z3.And(cond, self.truth(self.ev(c, sub), sub))
        if sub.exc:
            # an exception inside the comprehension's condition
            for exc, p2, ln in sub.exc:
                path.exc.append((exc, p2, ln))
        elt = self.ev(e.elt, sub)
        if elt.ty == 'pair' and len(bound) == 2 and {elt.t[0].get_id(), elt.t[1].get_id()} == {bound[0].get_id(), bound[1].get_id()}:
            # the element is the iteration pair itself (possibly swapped): no existential needed
            return self.alloc_pairlist(path, z3.Lambda([elt.t[0], elt.t[1]], z3.And(elem_in, cond)))
        if elt.ty == 'H' and len(bound) == 1 and elt.t.get_id() == bound[0].get_id():
            return self.alloc_set(path, z3.Lambda([bound[0]], z3.And(elem_in, cond)), 'list' if kind == 'list' else 'set')
        if elt.ty == 'pair':
            x, y = hp.fresh('x!c', H), hp.fresh('y!c', H)
            body = z3.Exists(bound, z3.And(elem_in, cond, elt.t[0] == x, elt.t[1] == y))
            return self.alloc_pairlist(path, z3.Lambda([x, y], body))
        if elt.ty == 'H':
            x = hp.fresh('x!c', H)
            body = z3.Exists(bound, z3.And(elem_in, cond, elt.t == x))
            return self.alloc_set(path, z3.Lambda([x], body), 'list' if kind == 'list' else 'set')
        raise Unsupported('comprehension element of type %s' % elt.ty)

    def ev_Call(self, e, path):
        return self.E.call(self, e, path)

    # -- statements --------------------------------------------------------------
    def bind_target(self, target, sv, path):
        if isinstance(target, ast.Name):
            if sv.ty == 'valueitem':
                sv = SV('set', sv.t[1])
            path.env[target.id] = sv
            return
        if isinstance(target, (ast.Tuple, ast.List)):
            names = target.elts
            if sv.ty == 'pair' and len(names) == 2:
                self.bind_target(names[0], SV('H', sv.t[0]), path)
                self.bind_target(names[1], SV('H', sv.t[1]), path)
                return
            if sv.ty == 'item' and len(names) == 2:
                self.bind_target(names[0], SV('H', sv.t[0]), path)
                self.bind_target(names[1], SV('set', sv.t[1]), path)
                return
            if sv.ty in ('tuple', 'clist') and len(names) == len(sv.x):
                for n, v in zip(names, sv.x):
                    self.bind_target(n, v, path)
                return
        raise Unsupported('assignment target %s := %s' % (type(target).__name__, sv.ty))

    def exec_block(self, stmts, path):
        """returns list of (kind, value, path); kind in next/return/raise/break/continue"""
        live = [path]
        out = []
        for st in stmts:
            nxt = []
            for p in live:
                for kind, val, p2 in self.exec_stmt(st, p):
                    if kind == 'next':
                        nxt.append(p2)
                    else:
                        out.append((kind, val, p2))
            live = nxt
            if not live:
                break
        for p in live:
            out.append(('next', None, p))
        return out

    def drain_exc(self, path, out):
        for exc, p2, ln in path.exc:
            p2.exc = []
            out.append(('raise', (exc, ln), p2))
        path.exc = []

    def exec_stmt(self, st, path):
        m = getattr(self, 'st_' + type(st).__name__, None)
        if m is None:
            raise Unsupported('statement %s at line %d' % (type(st).__name__, st.lineno))
        out = m(st, path)
        res = []
        for kind, val, p in out:
            self.drain_exc(p, res)
            res.append((kind, val, p))
        return res

    def st_Expr(self, st, path):
        if isinstance(st.value, ast.Constant):
            return [('next', None, path)]      # docstring
        if isinstance(st.value, ast.Yield):
            v = self.ev(st.value.value, path)
            self.do_yield(v, path, st)
            return [('next', None, path)]
        self.ev(st.value, path)
        return [('next', None, path)]

    def do_yield(self, v, path, st):
        g = path.ghosts
        if v.ty == 'H':
            cur = g.get('yH', hp.empty_set())
            self.oblige('yield:no_duplicate:L%d' % st.lineno, path, z3.Not(cur[v.t]), ('functional',), st.lineno)
            g['yH'] = z3.Store(cur, v.t, True)
        elif v.ty == 'pair':
            cur = g.get('yP', hp.empty_rel())
            self.oblige('yield:no_duplicate:L%d' % st.lineno, path, z3.Not(cur[v.t[0], v.t[1]]), ('functional',), st.lineno)
            g['yP'] = z3.Store(cur, v.t[0], v.t[1], True)
        else:
            raise Unsupported('yield of %s' % v.ty)

    def st_FunctionDef(self, st, path):
        # a local function: callable through its own sidecar contract, keyed '<outer>.<locals>.<name>'
        base = self.k.hints.get('path', self.k.qualname)
        q = '%s.<locals>.%s' % (base, st.name)
        if q not in self.E.contracts:
            raise Unsupported('local function %s has no contract' % q)
        path.env[st.name] = SV('func', None, ('contract', q))
        return [('next', None, path)]

    def st_Pass(self, st, path):
        return [('next', None, path)]

    def st_Assign(self, st, path):
        if len(st.targets) != 1:
            raise Unsupported('multiple assignment')
        tgt = st.targets[0]
        v = self.ev(st.value, path)
        self.assign(tgt, v, path, st)
        return [('next', None, path)]

    def st_AugAssign(self, st, path):
        cur = self.ev(st.target, path)
        v = self.ev(st.value, path)
        if cur.ty == 'int' and v.ty == 'int' and isinstance(st.op, ast.Add):
            self.assign(st.target, SV('int', cur.t + v.t), path, st)
            return [('next', None, path)]
        raise Unsupported('augmented assignment on %s' % cur.ty)

    def assign(self, tgt, v, path, st):
        if isinstance(tgt, (ast.Name, ast.Tuple, ast.List)):
            self.bind_target(tgt, v, path)
            return
        h = path.heap
        if isinstance(tgt, ast.Attribute):
            base = self.ev(tgt.value, path)
            self.E.set_attribute(self, base, tgt.attr, v, path, st)
            return
        if isinstance(tgt, ast.Subscript):
            base = self.ev(tgt.value, path)
            idx = self.ev(tgt.slice, path)
            h = path.heap
            if base.ty == 'dict' and idx.ty == 'H' and v.ty == 'set':
                self.E.check_write(self, ('dd', base.t), path, st)
                path.heap = h.with_(dd=z3.Store(h['dd'], base.t, z3.Store(h.ddom(base.t), idx.t, True)),
                                    dv=z3.Store(h['dv'], base.t, z3.Store(h.dval(base.t), idx.t, v.t)))
                return
            if base.ty == 'fdict' and idx.ty == 'F' and v.ty == 'set':
                self.E.check_write(self, ('fd', base.t), path, st)
                path.heap = h.with_(fd=z3.Store(h['fd'], base.t, z3.Store(h.fdom(base.t), idx.t, True)),
                                    fv=z3.Store(h['fv'], base.t, z3.Store(h.fval(base.t), idx.t, v.t)))
                return
            for x_ in self.E.ext:
                if x_.assign_subscript(self.E, self, base, idx, v, path, st):
                    return
            raise Unsupported('subscript assignment %s[%s] = %s at line %d' % (base.ty, idx.ty, v.ty, st.lineno))
        raise Unsupported('assignment target')

    def st_Return(self, st, path):
        v = hp.NONE if st.value is None else self.ev(st.value, path)
        return [('return', v, path)]

    def st_Raise(self, st, path):
        if st.exc is None:
            raise Unsupported('bare raise')
        exc = st.exc
        name = None
        if isinstance(exc, ast.Call) and isinstance(exc.func, ast.Name) and exc.func.id in path.env \
                and path.env[exc.func.id].ty == 'excclass':
            name = path.env[exc.func.id].x
            path.ghosts['raise_args'] = [self.ev(a, path) for a in exc.args]
            return [('raise', (name, st.lineno), path)]
        if isinstance(exc, ast.Call) and isinstance(exc.func, ast.Name):
            name = exc.func.id
            for a in exc.args:          # message expressions are executed (safety), value opaque
                try:
                    self.ev(a, path)
                except Unsupported:
                    pass
        elif isinstance(exc, ast.Name):
            name = exc.id
        if name not in EXC_PARENTS:
            raise Unsupported('raise of %r' % (ast.dump(exc)[:60],))
        return [('raise', (name, st.lineno), path)]

    def st_If(self, st, path):
        c = self.ev(st.test, path)
        t = self.truth(c, path, st.test.id if isinstance(st.test, ast.Name) else None)
        pt = path.fork(t)
        pt.exc = []
        pf = path.fork(z3.Not(t))
        pf.exc = []
        self.narrow(st.test, pt, pf)
        out = []
        self.drain_exc(path, out)
        ts = z3.simplify(t)
        # a guard that is statically false/true under the static types (e.g. isinstance(formula, str)
        # for a formula object) selects its branch; the other one is not executed
        if not z3.is_false(ts):
            out += self.exec_block(st.body, pt)
        if not z3.is_true(ts):
            out += self.exec_block(st.orelse, pf) if st.orelse else [('next', None, pf)]
        return out

    def narrow(self, test, pt, pf):
        """`X is None` / `X is not None` on an optional value: rebind X in the branches"""
        if isinstance(test, ast.Compare) and len(test.ops) == 1 and isinstance(test.left, ast.Name) \
                and isinstance(test.comparators[0], ast.Constant) and test.comparators[0].value is None \
                and isinstance(test.ops[0], (ast.Is, ast.IsNot)):
            n = test.left.id
            for p, is_none in ((pt, isinstance(test.ops[0], ast.Is)), (pf, isinstance(test.ops[0], ast.IsNot))):
                v = p.env.get(n)
                if v is not None and v.ty == 'opt':
                    p.env[n] = hp.NONE if is_none else v.x[1]

    def st_Try(self, st, path):
        if st.finalbody or st.orelse:
            raise Unsupported('try/finally or try/else')
        out = []
        for kind, val, p in self.exec_block(st.body, path):
            if kind != 'raise':
                out.append((kind, val, p))
                continue
            exc, ln = val
            handled = False
            for hd in st.handlers:
                hname = 'Exception' if hd.type is None else (hd.type.id if isinstance(hd.type, ast.Name) else None)
                if hname is None and isinstance(hd.type, ast.Attribute) and isinstance(hd.type.value, ast.Name):
                    hname = self.k.hints.get('exc_modules', {}).get(hd.type.value.id, hd.type.value.id) + '.' + hd.type.attr
                if hname is None:
                    raise Unsupported('exception handler type')
                if exc_matches(exc, hname):
                    if hd.name:
                        p.env[hd.name] = SV('exc', None, exc)
                    out += self.exec_block(hd.body, p)
                    handled = True
                    break
            if not handled:
                out.append((kind, val, p))
        return out

    def assigned_names(self, nodes):
        names = set()
        for nd in nodes:
            for x in ast.walk(nd):
                if isinstance(x, ast.Name) and isinstance(x.ctx, ast.Store):
                    names.add(x.id)
        return names

    def st_For(self, st, path):
        if st.orelse:
            raise Unsupported('for/else')
        it = self.ev(st.iter, path)
        if it.ty == 'clist':
            # concrete unrolling
            live = [path]
            out = []
            for v in it.x:
                nxt = []
                for p in live:
                    self.bind_target(st.target, v, p)
                    for kind, val, p2 in self.exec_block(st.body, p):
                        if kind in ('next', 'continue'):
                            nxt.append(p2)
                        elif kind == 'break':
                            out.append(('next', None, p2))
                        else:
                            out.append((kind, val, p2))
                live = nxt
            return out + [('next', None, p) for p in live]
        coll = self.as_coll(it, path)
        return self.loop(st, path, coll)

    def st_While(self, st, path):
        if st.orelse:
            raise Unsupported('while/else')
        return self.loop(st, path, None)

    def loop(self, st, path, coll):
        ordinal = self.loop_ordinals[id(st)]
        invf = self.k.loops.get(ordinal)
        if invf is None:
            raise Unsupported('loop %d (line %d) has no invariant in the sidecar contract' % (ordinal, st.lineno))
        out = []
        entry_heap = path.heap
        entry_env = dict(path.env)
        tag = 'loop%d' % ordinal
        if coll is not None:
            seen0 = {'seq': z3.IntVal(0), 'H': hp.empty_set(), 'pair': hp.empty_rel(), 'item': hp.empty_set(), 'value': hp.empty_set(),
                     'ref': z3.K(I, z3.BoolVal(False)), 'F': z3.K(F, z3.BoolVal(False))}[coll.kind]
        else:
            seen0 = None
        # 1. invariant holds on entry
        lc = LoopCtx(self.ctx, path, entry_heap, entry_env, seen0, coll, path.ghosts)
        for name, f in invf(lc):
            self.oblige('%s:%s:init' % (tag, name), path, f, ('invariant',), st.lineno)
        # 2. havoc
        hv = path.fork()
        hv.exc = []
        written = self.assigned_names(st.body) | (self.assigned_names([st.target]) if coll is not None else set())
        for n in sorted(written):
            if n in hv.env and hv.env[n].ty not in ('clist', 'coll', 'str', 'none', 'func', 'module', 'type', 'tuple', 'exc'):
                if hv.env[n].ty == 'opt':
                    continue
                hv.env[n] = self.fresh_of(hv.env[n].ty, hv.heap, n)
            elif n in hv.env and hv.env[n].ty == 'str' and self.k.hints.get('format_is_H'):
                # a label variable re-assigned in the body (to a formatted string): any hashable value
                hv.env[n] = SV('H', hp.fresh(n, H))
        lt = self.k.loop_touches.get(ordinal)
        hv.heap = Heap.symbolic('L%d' % ordinal) if lt is None else Heap.partial('L%d' % ordinal, entry_heap, lt)
        hv.pc.append(hv.heap.alloc >= entry_heap.alloc)
        hv.ghosts = dict(path.ghosts)
        for gk, sort in (('yH', hp.SetH), ('yP', hp.Rel)):
            if gk in hv.ghosts or self.k.generator:
                hv.ghosts[gk] = hp.fresh(gk, sort)
        if coll is not None:
            seen = hp.fresh('seen', seen0.sort())
        else:
            seen = None
        if coll is not None and coll.kind == 'seq':
            # the length/elements of an iterated list object are read at loop entry (E6)
            pass
        lc = LoopCtx(self.ctx, hv, entry_heap, entry_env, seen, coll, hv.ghosts)
        inv = invf(lc)
        for name, f in inv:
            hv.pc.append(f)
        if coll is not None:
            # seen is a subset of the collection
            hv.pc.append(self._seen_subset(seen, coll))
        # 3. exit state
        ex = hv.fork()
        if coll is not None:
            ex.pc.append(self._seen_all(seen, coll))
        else:
            c = self.ev(st.test, ex)
            ex.pc.append(z3.Not(self.truth(c, ex)))
            self.drain_exc(ex, out)
        # 4. one arbitrary iteration
        body = hv.fork()
        if coll is not None:
            body.ghosts['seen%d' % ordinal] = seen
            elem, cond = self._pick(coll, seen, body)
            body.pc.append(cond)
            self.bind_target(st.target, elem, body)
        else:
            c = self.ev(st.test, body)
            body.pc.append(self.truth(c, body))
            self.drain_exc(body, out)
        self.probes.append(('%s:body' % tag, list(self.axioms) + list(body.pc)))
        self.probes.append(('%s:exit' % tag, list(self.axioms) + list(ex.pc)))
        for kind, val, p2 in self.exec_block(st.body, body):
            if kind in ('next', 'continue'):
                seen2 = self._seen_add(seen, coll, elem) if coll is not None else None
                if coll is not None:
                    # name the extended set and state the ground instance (true by the store
                    # axiom): it gives e-matching the witness for clauses about visited elements
                    named = hp.fresh('seen_next', seen.sort())
                    p2.pc.append(named == seen2)
                    seen2 = named
                    p2.pc.append(self._seen_has(seen2, coll, elem))
                lc2 = LoopCtx(self.ctx, p2, entry_heap, entry_env, seen2, coll, p2.ghosts)
                for name, f in invf(lc2):
                    self.oblige('%s:%s:preserved' % (tag, name), p2, f, ('invariant',), st.lineno)
                if lt is not None:
                    # components the loop is declared not to touch must be the same arrays after the body
                    for comp_ in hp.COMPONENTS:
                        if comp_ not in lt and not z3.eq(p2.heap[comp_], hv.heap[comp_]):
                            self.oblige('%s:declared:untouched:%s' % (tag, comp_), p2, p2.heap[comp_] == hv.heap[comp_], ('frame',), st.lineno)
                if coll is not None and coll.src is not None:
                    comp, ref = coll.src
                    self.oblige('%s:iterated_container_unchanged' % tag, p2,
                                p2.heap[comp][ref] == hv.heap[comp][ref], ('safety',), st.lineno)
            elif kind == 'break':
                out.append(('next', None, p2))
            else:
                out.append((kind, val, p2))
        out.append(('next', None, ex))
        return out

    def _seen_subset(self, seen, coll):
        if coll.kind == 'seq':
            return z3.And(seen >= 0, seen <= coll.length)
        if coll.kind == 'pair':
            x, y = hp.fresh('x!u', H), hp.fresh('y!u', H)
            return z3.ForAll([x, y], z3.Implies(seen[x, y], coll.mem[x, y]))
        if coll.kind == 'ref':
            r = hp.fresh('r!u', I)
            return z3.ForAll([r], z3.Implies(seen[r], coll.mem[r]))
        x = hp.fresh('x!u', F if coll.kind == 'F' else H)
        return z3.ForAll([x], z3.Implies(seen[x], coll.mem[x]))

    def _seen_all(self, seen, coll):
        if coll.kind == 'seq':
            return seen == coll.length
        if coll.kind == 'pair':
            x, y = hp.fresh('x!v', H), hp.fresh('y!v', H)
            return z3.ForAll([x, y], seen[x, y] == coll.mem[x, y])
        if coll.kind == 'ref':
            r = hp.fresh('r!v', I)
            return z3.ForAll([r], seen[r] == coll.mem[r])
        x = hp.fresh('x!v', F if coll.kind == 'F' else H)
        return z3.ForAll([x], seen[x] == coll.mem[x])

    def _pick(self, coll, seen, path):
        h = path.heap
        if coll.kind == 'seq':
            return coll.elem(seen), seen < coll.length
        if coll.kind == 'H':
            x = hp.fresh('it', H)
            cond = coll.mem[x]
            if coll.distinct:
                cond = z3.And(cond, z3.Not(seen[x]))
            return SV('H', x), cond
        if coll.kind == 'pair':
            x, y = hp.fresh('it0', H), hp.fresh('it1', H)
            cond = coll.mem[x, y]
            if coll.distinct:
                cond = z3.And(cond, z3.Not(seen[x, y]))
            return SV('pair', (x, y)), cond
        if coll.kind == 'item':
            x = hp.fresh('itk', H)
            cond = z3.And(coll.mem[x], z3.Not(seen[x]))
            return SV('item', (x, h.dval(coll.pair_second)[x])), cond
        if coll.kind == 'F':
            x = hp.fresh('itf', F)
            cond = coll.mem[x]
            if coll.distinct:
                cond = z3.And(cond, z3.Not(seen[x]))
            return SV('F', x), cond
        if coll.kind == 'value':
            x = hp.fresh('itk', H)
            cond = z3.And(coll.mem[x], z3.Not(seen[x]))
            path.ghosts['cur_key'] = x
            return SV('valueitem', (x, h.dval(coll.pair_second)[x])), cond
        if coll.kind == 'ref':
            r = hp.fresh('itr', I)
            cond = coll.mem[r]
            if coll.distinct:
                cond = z3.And(cond, z3.Not(seen[r]))
            return SV(coll.elem_ty or 'list', r), cond
        raise Unsupported('iteration over %s' % coll.kind)

    def _seen_has(self, seen, coll, elem):
        if coll.kind == 'seq':
            return seen >= 1
        if coll.kind == 'pair':
            return seen[elem.t[0], elem.t[1]]
        if coll.kind in ('item', 'value'):
            return seen[elem.t[0]]
        return seen[elem.t]

    def _seen_add(self, seen, coll, elem):
        if coll.kind == 'seq':
            return seen + 1
        if coll.kind == 'pair':
            return z3.Store(seen, elem.t[0], elem.t[1], True)
        if coll.kind in ('item', 'value'):
            return z3.Store(seen, elem.t[0], True)
        return z3.Store(seen, elem.t, True)


class LoopCtx(object):
    """what a loop invariant can talk about"""

    def __init__(self, c, path, entry_heap, entry_env, seen, coll, ghosts):
        self.c = c
        self.env = path.env
        self.h = path.heap
        self.h_entry = entry_heap
        self.env_entry = entry_env
        self.seen = seen
        self.coll = coll
        self.yH = ghosts.get('yH')
        self.yP = ghosts.get('yP')
        self.outer = {int(k[4:]): v for k, v in ghosts.items() if k.startswith('seen')}

    def v(self, name):
        return self.env[name]
