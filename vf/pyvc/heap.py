"""Sorts, heap model and symbolic values of the VC generator.

Heap = a few z3 arrays indexed by integer references (see DESIGN.md 2.3):
  sets : Ref -> (H -> Bool)        contents of set objects, of list-of-H objects
                                   (bag abstraction) and of generators of H
  rels : Ref -> (H x H -> Bool)    contents of list-of-pairs objects (bag)
  dd/dv: Ref -> dom (H->Bool) / val (H->Ref)   dict  H -> set
  fd/fv: Ref -> dom (F->Bool) / val (F->Ref)   dict  Formula -> set  (memo table)
  fld_<name> : Ref -> Ref          object fields holding references
  alloc : Int                      every existing reference is in [0, alloc)
Static types of symbolic values are tracked on the Python side (SV.ty).
"""
import itertools

import z3

H = z3.DeclareSort('H')          # hashable values (states, nodes, labels) - E1
F = z3.DeclareSort('F')          # formula trees identified by printed form
SetH = z3.ArraySort(H, z3.BoolSort())
SetF = z3.ArraySort(F, z3.BoolSort())
SetR = z3.ArraySort(z3.IntSort(), z3.BoolSort())
Rel = z3.ArraySort(H, H, z3.BoolSort())
I = z3.IntSort()
B = z3.BoolSort()

NONE_H = z3.Const('None_H', H)   # Python None as a hashable value

_counter = itertools.count()


def fresh(prefix, sort):
    return z3.Const('%s!%d' % (prefix, next(_counter)), sort)


def hvar(name='x'):
    return fresh(name, H)


COMPONENTS = {
    'sets': z3.ArraySort(I, SetH),
    'rels': z3.ArraySort(I, Rel),
    'dd': z3.ArraySort(I, SetH),
    'dv': z3.ArraySort(I, z3.ArraySort(H, I)),
    'fd': z3.ArraySort(I, SetF),
    'fv': z3.ArraySort(I, z3.ArraySort(F, I)),
    'refsets': z3.ArraySort(I, SetR),     # collections of references (generator of lists)
    'fs_len': z3.ArraySort(I, I),                     # python lists of formulas: length
    'fs_el': z3.ArraySort(I, z3.ArraySort(I, F)),     #                          elements by index
    # BDD nodes (BDD/BDD.py): fields by node reference; weak parent sets as sets of references
    'b_var': z3.ArraySort(I, H), 'b_low': z3.ArraySort(I, I), 'b_high': z3.ArraySort(I, I),
    'b_term': z3.ArraySort(I, B), 'b_val': z3.ArraySort(I, B),
    'b_fl': z3.ArraySort(I, SetR), 'b_fh': z3.ArraySort(I, SetR),
    # class-level dictionary BDDTerminalNode.Tnodes (a GLOBAL, keyed by the Boolean value): has-entry / node
    'tn_has': z3.ArraySort(B, B), 'tn_ref': z3.ArraySort(B, I),
    'o_root': z3.ArraySort(I, I), 'o_ord': z3.ArraySort(I, I),      # OBDD objects: root node, ordering (an opaque value)
    'b_node': z3.ArraySort(I, B),      # type tag: the object is a BDD node (set by object.__new__(cls); False for dictionaries)
    # GHOST: the Boolean function a node denotes (assignment = set of true variables -> Bool); written only
    # by sidecar ghost code at the exit of the two __reset__ methods
    'b_den': z3.ArraySort(I, z3.ArraySort(SetH, B)),
    # GHOST: the set of orderings (opaque values) a node's diagram respects
    'b_resp': z3.ArraySort(I, z3.ArraySort(I, B)),
    # dictionaries keyed by node objects (result caches): domain and value (a node or an inner dictionary)
    'rd_dom': z3.ArraySort(I, SetR), 'rd_val': z3.ArraySort(I, z3.ArraySort(I, I)),
    'fld__next': z3.ArraySort(I, I),
    'fld__labels': z3.ArraySort(I, I),
    'fld_S0': z3.ArraySort(I, I),
}


class Heap(object):
    """immutable record of z3 terms; `with_(name=term)` returns an updated copy"""

    def __init__(self, comp, alloc):
        self.c = dict(comp)
        self.alloc = alloc

    @staticmethod
    def symbolic(tag):
        return Heap({k: fresh('%s_%s' % (tag, k), s) for k, s in COMPONENTS.items()},
                    fresh('%s_alloc' % tag, I))

    @staticmethod
    def partial(tag, base, touched):
        """fresh arrays only for the touched components, the others are kept"""
        comp = {k: (fresh('%s_%s' % (tag, k), srt) if k in touched else base.c[k]) for k, srt in COMPONENTS.items()}
        return Heap(comp, fresh('%s_alloc' % tag, I))

    def with_(self, alloc=None, **kw):
        c = dict(self.c)
        c.update(kw)
        return Heap(c, self.alloc if alloc is None else alloc)

    def __getitem__(self, k):
        return self.c[k]

    # -- reads ---------------------------------------------------------------
    def set_of(self, r):
        return self.c['sets'][r]

    def rel_of(self, r):
        return self.c['rels'][r]

    def ddom(self, r):
        return self.c['dd'][r]

    def dval(self, r):
        return self.c['dv'][r]

    def fdom(self, r):
        return self.c['fd'][r]

    def fval(self, r):
        return self.c['fv'][r]

    def field(self, name, r):
        return self.c['fld_' + name][r]

    # -- allocation ------------------------------------------------------------
    def new(self):
        """(ref, heap') - a fresh reference"""
        return self.alloc, self.with_(alloc=self.alloc + 1)


def same_below(h0, h1, bound, comps=None, except_sets=None, named=False):
    """frame: every component entry with reference < bound is unchanged
    (except_sets: z3 predicate on refs exempting some set refs)"""
    r = z3.Int('r!frame')
    out = []
    names = []
    for k in (comps or COMPONENTS.keys()):
        if z3.eq(h0[k], h1[k]) or COMPONENTS[k].domain() != I:       # (globals are not indexed by references)
            continue
        cond = z3.And(r >= 0, r < bound)
        if k == 'sets' and except_sets is not None:
            cond = z3.And(cond, z3.Not(except_sets(r)))
        out.append(z3.ForAll([r], z3.Implies(cond, h0[k][r] == h1[k][r])))
        names.append(k)
    if named:
        return list(zip(names, out))
    return out


class SV(object):
    """symbolic value with a static type"""
    __slots__ = ('ty', 't', 'x')

    def __init__(self, ty, t=None, x=None):
        self.ty = ty
        self.t = t
        self.x = x

    def __repr__(self):
        return 'SV(%s,%s)' % (self.ty, self.t)


def sv_h(t):
    return SV('H', t)


def sv_f(t):
    return SV('F', t)


def sv_bool(t):
    return SV('bool', t)


def sv_int(t):
    return SV('int', t)


NONE = SV('none')


def sv_ref(ty, t):
    return SV(ty, t)


REF_TYPES = ('set', 'list', 'dlist', 'pairlist', 'dict', 'fdict', 'graph', 'kripke', 'keys', 'reflist', 'fseq', 'bnode', 'refdict', 'refdict2', 'obdd', 'refset')
# 'dlist': a list without repeated elements that the code only reads (len, iteration, membership)


class Coll(object):
    """an iterable seen as a collection: kind in {'H','pair','ref','F'};
    mem = z3 array (SetH / Rel / SetR / SetF); distinct = elements are visited
    at most once; src = (component, ref) of the heap container it aliases or None"""

    def __init__(self, kind, mem, distinct, src=None, elem_ty=None, pair_second=None, length=None, elem=None):
        self.kind = kind
        self.mem = mem
        self.distinct = distinct
        self.src = src
        self.elem_ty = elem_ty
        self.pair_second = pair_second   # for dict.items(): 'setref' (value is the dict's set ref)
        self.length = length             # kind 'seq': z3 Int length, visited positionally in order
        self.elem = elem                 # kind 'seq': j -> SV


def empty_set():
    return z3.K(H, z3.BoolVal(False))


def empty_rel():
    x, y = z3.Consts('x!e y!e', H)
    return z3.Lambda([x, y], z3.BoolVal(False))


def subset(a, b, sort=H):
    x = fresh('x!s', sort)
    return z3.ForAll([x], z3.Implies(a[x], b[x]))


def seteq(a, b, sort=H):
    x = fresh('x!q', sort)
    return z3.ForAll([x], a[x] == b[x])


def releq(a, b):
    x, y = fresh('x!r', H), fresh('y!r', H)
    return z3.ForAll([x, y], a[x, y] == b[x, y])


class PSet(object):
    """a set/relation given by a Python predicate; supports the same `S[x]` /
    `R[x, y]` syntax as z3 arrays without introducing lambda terms"""

    def __init__(self, f):
        self.f = f

    def __getitem__(self, x):
        return self.f(*x) if isinstance(x, tuple) else self.f(x)


# Hilbert choice on sets of H: nonempty(S) is S[pick(S)], which avoids the
# forall-exists alternation of "every state has a successor" (totality)
pick = z3.Function('pick', SetH, H)


def nonempty(S):
    return S[pick(S)]


pickR = z3.Function('pickR', SetR, I)      # the same for sets of references


def nonemptyR(S):
    return S[pickR(S)]


def pickR_axiom():
    S = z3.Const('S!pickR', SetR)
    d = z3.Const('d!pickR', I)
    return z3.ForAll([S, d], z3.Implies(S[d], S[pickR(S)]), patterns=[S[d]])


def pick_axiom():
    S = z3.Const('S!pick', SetH)
    d = z3.Const('d!pick', H)
    return z3.ForAll([S, d], z3.Implies(S[d], S[pick(S)]), patterns=[S[d]])


# "s is an end point of some pair of the relation E", in skolemised form (no
# existential quantifier in specifications): isend(E, s) <-> exists y. E[s,y] or E[y,s]
isend = z3.Function('isend', Rel, H, B)
_w1 = z3.Function('isend_w1', Rel, H, H)
_w2 = z3.Function('isend_w2', Rel, H, H)


def isend_axioms():
    E = z3.Const('E!ie', Rel)
    s, y = z3.Const('s!ie', H), z3.Const('y!ie', H)
    a, b = z3.Const('a!ie', H), z3.Const('b!ie', H)
    upd = z3.Store(E, a, b, True)
    # (the converse  E[s,y] -> isend(E,s) & isend(E,y)  is true as well but, as a quantified axiom
    #  with trigger E[s,y], it forms a matching loop with the next one; it is not needed: the store
    #  lemma below covers the only use, a relation extended by one pair)
    return [z3.ForAll([E, s], z3.Implies(isend(E, s), z3.Or(E[s, _w1(E, s)], E[_w2(E, s), s])), patterns=[isend(E, s)]),
            # consequence of the two above for an extension by one pair (stated because
            # e-matching does not create select terms over a store by itself)
            z3.ForAll([E, a, b, s], isend(upd, s) == z3.Or(isend(E, s), s == a, s == b), patterns=[isend(upd, s)])]


EMPTY_REL = z3.Const('EMPTY_REL', Rel)


def empty_rel_axiom():
    x, y = z3.Const('x!er', H), z3.Const('y!er', H)
    return z3.ForAll([x, y], z3.Not(EMPTY_REL[x, y]), patterns=[EMPTY_REL[x, y]])


def as_rel(R):
    """a z3 Rel term for a relation given as a PSet (needed as an argument of isend)"""
    if isinstance(R, PSet):
        x, y = z3.Const('x!ar', H), z3.Const('y!ar', H)
        return z3.Lambda([x, y], R[x, y])
    return R


def FA(vs, body, pats=()):
    """ForAll with the given e-matching patterns, keeping only patterns that are still
    select / uninterpreted applications after simplification (a select over a lambda
    beta-reduces to a Boolean combination, which is not a legal pattern)"""
    good = []
    for p_ in pats:
        try:
            q = z3.simplify(p_)
        except Exception:
            continue
        if z3.is_app(q) and q.decl().kind() in (z3.Z3_OP_SELECT, z3.Z3_OP_UNINTERPRETED) and not z3.is_const(q) \
                and not _has_binder(p_):
            good.append(p_)
    if good:
        return z3.ForAll(vs, body, patterns=good)
    return z3.ForAll(vs, body)


def _has_binder(t, seen=None):
    seen = set() if seen is None else seen
    if t.get_id() in seen:
        return False
    seen.add(t.get_id())
    if z3.is_quantifier(t):
        return True
    if z3.is_app(t):
        if t.decl().kind() == z3.Z3_OP_ITE:
            return True
        return any(_has_binder(c, seen) for c in t.children())
    return False


# ---- reflexive-transitive closure of a relation (trusted mathematics, DESIGN.md 10.7) ---------
# rtc(E)[x, y]: there is a finite E-path from x to y (possibly empty).  First-order consequences are
# given with e-matching patterns; the induction principle and the converse law are second-order
# schemas that sidecar cut lemmas instantiate syntactically.
rtc = z3.Function('rtc', Rel, Rel)
rtc_last = z3.Function('rtc_last', Rel, H, H, H)      # the node before y on some E-path x ->* y (x != y)
_E, _E2 = z3.Const('E!tc', Rel), z3.Const('E2!tc', Rel)
_Z = z3.Const('Z!tc', SetH)
_x, _y, _z = z3.Const('x!tc', H), z3.Const('y!tc', H), z3.Const('z!tc', H)
_a, _b = z3.Const('a!tc', H), z3.Const('b!tc', H)


def rtc_axioms():
    R = rtc(_E)
    return [
        z3.ForAll([_E, _x, _y], z3.Implies(_E[_x, _y], R[_x, _y]), patterns=[z3.MultiPattern(_E[_x, _y], rtc(_E))]),
        z3.ForAll([_E, _x, _y, _z], z3.Implies(z3.And(R[_x, _y], R[_y, _z]), R[_x, _z]),
                  patterns=[z3.MultiPattern(R[_x, _y], R[_y, _z])]),
        z3.ForAll([_E, _x, _y], z3.Implies(z3.And(R[_x, _y], _x != _y),
                                           z3.And(R[_x, rtc_last(_E, _x, _y)], _E[rtc_last(_E, _x, _y), _y])),
                  patterns=[rtc_last(_E, _x, _y)]),       # only where a proof names the term (R[x, y] would loop)
    ]


# induction: a set that contains x and is closed under E contains everything E-reachable from x
RTC_INDUCTION = z3.ForAll([_E, _Z], z3.Implies(
    z3.ForAll([_a, _b], z3.Implies(z3.And(_Z[_a], _E[_a, _b]), _Z[_b])),
    z3.ForAll([_x, _y], z3.Implies(z3.And(_Z[_x], rtc(_E)[_x, _y]), _Z[_y]))))
# the closure of the converse relation is the converse of the closure
RTC_CONVERSE = z3.ForAll([_E, _E2], z3.Implies(
    z3.ForAll([_a, _b], _E[_a, _b] == _E2[_b, _a]),
    z3.ForAll([_x, _y], rtc(_E)[_x, _y] == rtc(_E2)[_y, _x])))
