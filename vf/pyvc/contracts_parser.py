"""Sidecar contract for pyModelChecking/parser.py: Parser.__call__ (property C10, wrapper part).

The Lark engine is EXTERNAL and its contract is ASSUMED: `Lark.parse(string)` returns the
transformer's value, or raises lark's UnexpectedToken / UnexpectedCharacters whose
`pos_in_stream` lies in [0, len(string)].  Which strings a grammar accepts is data interpreted by
Lark (bounded only).  What is proved here is the translation done by the wrapper: it returns that
value, or raises the package's UnexpectedToken / UnexpectedCharacters (never another class) with
the same position and the same string."""
import z3

from . import heap as hp
from .heap import SV, H
from .driver import Extension
from .engine import Contract, Unsupported

I = z3.IntSort()
B = z3.BoolSort()
FILE = 'parser.py'

lark_tok = z3.Function('lark_raises_UnexpectedToken', H, B)
lark_chr = z3.Function('lark_raises_UnexpectedCharacters', H, B)
lark_pos = z3.Function('lark_pos_in_stream', H, I)
lark_val = z3.Function('lark_value', H, H)
strlen = z3.Function('strlen', H, I)


def lark_axioms():
    s = z3.Const('s!lk', H)
    return [z3.ForAll([s], z3.Not(z3.And(lark_tok(s), lark_chr(s))), patterns=[lark_tok(s), lark_chr(s)]),
            z3.ForAll([s], z3.And(lark_pos(s) >= 0, lark_pos(s) <= strlen(s)), patterns=[lark_pos(s)]),
            z3.ForAll([s], strlen(s) >= 0, patterns=[strlen(s)])]


class ParserExt(Extension):
    def on(self, ex):
        return ex.k.hints.get('ext') == 'parser'

    def global_name(self, E, k, name):
        if k.hints.get('ext') != 'parser':
            return None
        if name in ('UnexpectedToken', 'UnexpectedCharacters'):
            return SV('excclass', None, 'pkg.' + name)
        if name == 'exceptions':
            return SV('module', None, 'lark')
        return None

    def attribute(self, E, ex, base, attr, path, node):
        if not self.on(ex):
            return None
        if base.ty == 'parserobj' and attr == '_parser':
            return SV('lark')
        if base.ty == 'lark':
            return SV('bound', None, (base, attr))
        if base.ty == 'exc' and attr == 'pos_in_stream' and base.x.startswith('lark.'):
            return SV('int', lark_pos(path.ghosts['lark_string']))
        return None

    def method(self, E, ex, base, attr, args, kwargs, path, node):
        if not self.on(ex) or base.ty != 'lark' or attr != 'parse':
            return None
        s = args[0]
        if s.ty != 'H':
            raise Unsupported('parse of %s' % s.ty)
        path.ghosts['lark_string'] = s.t
        # assumed external contract
        for exc, cond in (('lark.UnexpectedToken', lark_tok(s.t)), ('lark.UnexpectedCharacters', lark_chr(s.t))):
            p2 = path.fork(cond)
            path.exc.append((exc, p2, node.lineno))
        path.pc.append(z3.Not(lark_tok(s.t)))
        path.pc.append(z3.Not(lark_chr(s.t)))
        return SV('H', lark_val(s.t))

    def param_value(self, E, ex, name, ty, heap, pc):
        if ty == 'parserobj':
            return SV('parserobj')
        return None


def install(E):
    E.ext.append(ParserExt())

    def raise_ensures(c, path, exc):
        args = path.ghosts.get('raise_args')
        if not args or len(args) != 2 or args[0].ty != 'H' or args[1].ty != 'int':
            return [('error_carries_string_and_position', z3.BoolVal(False))]
        s = c.string.t
        return [('error_string', args[0].t == s),
                ('error_position_is_larks', args[1].t == lark_pos(s)),
                ('error_position_in_range', z3.And(args[1].t >= 0, args[1].t <= strlen(s)))]

    E.register(Contract(
        'Parser.__call__', 'parser', [('self', 'parserobj'), ('string', 'H')], ret='H',
        requires=lambda c: ([('assumed_contract_of_Lark.parse', z3.And(lark_axioms()))] if c.side == 'callee' else []),
        ensures=lambda c: [('returns_the_transformers_value', c.res.t == lark_val(c.string.t))],
        raises={'pkg.UnexpectedToken': lambda c: lark_tok(c.string.t),
                'pkg.UnexpectedCharacters': lambda c: lark_chr(c.string.t)},
        pure=True, hints={'ext': 'parser', 'exc_modules': {'exceptions': 'lark'}, 'raise_ensures': raise_ensures}, owner='C10',
        note='Lark.parse is an external with an ASSUMED contract; language membership is bounded only'), FILE)
