"""Planted-defect self-test of the VC generator (DESIGN.md 2.9, Appendix B).

Each entry is a realistic one-line change applied to a scratch copy of the package (mktemp
directory outside /repo and /verif, removed afterwards); the generator must then fail at least one
obligation of the named function (or report an extraction failure for it).  A change that still
verifies means the generator is unsound for that construct: the check that runs this in its
thorough tier exits 3 (checker failure), it never reports a property violation."""
import os
import shutil
import tempfile

from .. import core

GRAPH_MUTS = {
 'sub_or': ('graph.py', "if s in V and d in V]", "if s in V or d in V]", ['DiGraph.get_subgraph']),
 'rev_isolated': ('graph.py', "return DiGraph(V=self.nodes(), E=rE)", "return DiGraph(E=rE)", ['DiGraph.get_reversed_graph']),
 'reach_noseed': ('graph.py', "        R = set(nodes)\n", "        R = set()\n", ['DiGraph.get_reachable_set_from']),
 'clone_alias': ('graph.py', "nDG._next[src] = set(dsts)", "nDG._next[src] = dsts", ['DiGraph.clone']),
 'reach_flip': ('graph.py', "if d not in R:", "if d in R:", ['DiGraph.get_reachable_set_from']),
 'reach_noappend': ('graph.py', "                    queue.append(d)\n", "                    pass\n", ['DiGraph.get_reachable_set_from']),
 'addedge_noadd': ('graph.py', "        if dst not in self._next:\n            self.add_node(dst)\n", "", ['DiGraph.add_edge']),
 'init_nodst': ('graph.py', "                    if dst not in self._next:\n                        self._next[dst] = set()\n", "", ['DiGraph.__init__']),
 'sources_all': ('graph.py', "            if len(dsts) > 0:\n                yield src", "            if len(dsts) >= 0:\n                yield src", ['DiGraph.sources']),
 'edges_iter_swap': ('graph.py', "                yield (src, dst)", "                yield (dst, src)", ['DiGraph.edges_iter']),
 'next_noraise': ('graph.py', "        if src not in self._next:\n            raise RuntimeError('src", "        if src in self._next and False:\n            raise RuntimeError('src", ['DiGraph.next']),
 'addnode_overwrite': ('graph.py', "        if v in self._next:\n            raise RuntimeError('v", "        if False:\n            raise RuntimeError('v", ['DiGraph.add_node']),
}

KRIPKE_MUTS = {
 'S0_nointersect': ('kripke.py', "self.S0 = set(self.nodes()) & set(S0)", "self.S0 = set(S0)", ['Kripke.__init__']),
 'total_only_S': ('kripke.py', "pots = set(self.nodes())-set(self.sources())", "pots = set(S or [])-set(self.sources())", ['Kripke.__init__']),
 'labels_uncopied': ('kripke.py', "self._labels[state] = set(L[state])", "self._labels[state] = L[state]", ['Kripke.__init__']),
 'clone_nolabels': ('kripke.py', "return Kripke(self.states(), self.S0, self.transitions(), L)", "return Kripke(self.states(), self.S0, self.transitions())", ['Kripke.clone']),
 'clone_noS0': ('kripke.py', "return Kripke(self.states(), self.S0, self.transitions(), L)", "return Kripke(self.states(), None, self.transitions(), L)", ['Kripke.clone']),
 'sub_labels_next': ('kripke.py', "L = {s: AP for s, AP in self._labels.items() if s in V}", "L = {s: AP for s, AP in self._next.items() if s in V}", ['Kripke.get_substructure']),
 'sub_edges_or': ('kripke.py', "if s in V and d in V]", "if s in V or d in V]", ['Kripke.get_substructure']),
 'sub_S0_all': ('kripke.py', "S0 = V & self.S0", "S0 = self.S0", ['Kripke.get_substructure']),
 'labels_nocheck': ('kripke.py', "            if state not in self.nodes():", "            if False:", ['Kripke.labels']),
 'next_swallow': ('kripke.py', "            raise RuntimeError(('src=\\'{}\\' is not a state '.format(src)) +\n                               'of this Kripke structure')", "            return set()", ['Kripke.next']),
}

F = 'CTL/model_checking.py'
CTL_MUTS = {
 'ex_src': (F, "            if dst in Lphi:\n                Lformula.add(src)", "            if src in Lphi:\n                Lformula.add(src)", ['_checkEX']),
 'ex_adddst': (F, "            if dst in Lphi:\n                Lformula.add(src)", "            if dst in Lphi:\n                Lformula.add(dst)", ['_checkEX']),
 'not_iter_lphi': (F, "        for v in kripke.states():\n            if v not in Lphi:", "        for v in Lphi:\n            if v not in Lphi:", ['_checkNot']),
 'not_in': (F, "            if v not in Lphi:\n                Lformula.add(v)", "            if v in Lphi:\n                Lformula.add(v)", ['_checkNot']),
 'not_memo_sub': (F, "            if v not in Lphi:\n                Lformula.add(v)\n\n        L[formula] = Lformula", "            if v not in Lphi:\n                Lformula.add(v)\n\n        L[formula.subformula(0)] = Lformula", ['_checkNot']),
 'ap_labels': (F, "            if formula.name in kripke.labels(v):", "            if formula.name not in kripke.labels(v):", ['_checkAtomicProposition']),
 'or_first_only': (F, "        for sf in formula.subformulas():\n            for v in _checkStateFormula(kripke, sf, L):", "        for sf in [formula.subformula(0)]:\n            for v in _checkStateFormula(kripke, sf, L):", ['_checkOr']),
 'or_inplace': (F, "        Lformula = set()\n        for sf in formula.subformulas():", "        Lformula = _checkStateFormula(kripke, formula.subformula(0), L)\n        for sf in formula.subformulas():", ['_checkOr']),
 'bool_swap': (F, "        if formula == Bool(True):", "        if formula == Bool(False):", ['_checkStateFormula']),
 'dispatch_eg_eu': (F, "        if isinstance(p_formula, CTLS.G):\n            return _checkEG(kripke, formula, L)", "        if isinstance(p_formula, CTLS.G):\n            return _checkEU(kripke, formula, L)", ['_checkStateFormula']),
 'restr_nostore_alias': (F, "    L[formula] = Lalter_formula\n\n    return Lalter_formula", "    L[formula] = Lalter_formula\n    Lalter_formula.add(next(iter(kripke.states())))\n    return Lalter_formula", ['_checkStateFormula']),
 'bool_alias_states': (F, "            Lformula = set(kripke.states())\n", "            Lformula = kripke.S0\n", ['_checkStateFormula']),
}
CTL_MUTS.update({
 'eu_no_addnode': (F, "        for v in Lphi[1]-subgraph.nodes():\n            subgraph.add_node(v)\n", "", ['_checkEU']),
 'eu_wrong_start': (F, "        L[formula] = subgraph.get_reachable_set_from(Lphi[1])", "        L[formula] = subgraph.get_reachable_set_from(Lphi[0])", ['_checkEU']),
 'eu_edge_dir': (F, "                    subgraph.add_edge(w, v)", "                    subgraph.add_edge(v, w)", ['_checkEU']),
 'eu_no_reverse': (F, "        subgraph = kripke.get_subgraph(Lphi[0])\n        subgraph = subgraph.get_reversed_graph()", "        subgraph = kripke.get_subgraph(Lphi[0])", ['_checkEU']),
 'eu_subgraph_phi1': (F, "        subgraph = kripke.get_subgraph(Lphi[0])", "        subgraph = kripke.get_subgraph(Lphi[1])", ['_checkEU']),
 'eu_next_not_filtered': (F, "            for w in (kripke.next(v) & Lphi[1]):", "            for w in (kripke.next(v) | Lphi[1]):", ['_checkEU']),
})
CTL_MUTS.update({
 'mc_no_state_guard': (F, "    if not isinstance(formula, StateFormula):\n        raise TypeError('expected a CTL state formula, got {}'.format(formula))", "    if False:\n        raise TypeError('expected a CTL state formula, got {}'.format(formula))", ['modelcheck', 'CTL.modelcheck(text)']),
 'mc_returns_states': (F, "    return _checkStateFormula(kripke, formula, L=dict())", "    _checkStateFormula(kripke, formula, L=dict())\n    return kripke.S0", ['modelcheck']),
})
CTL_MUTS.update({
 'eg_trivial_components': (F, "            if len(scc) > 1 or v in subgraph.next(v):", "            if len(scc) >= 1 or v in subgraph.next(v):", ['_checkEG']),
 'eg_big_components_only': (F, "            if len(scc) > 1 or v in subgraph.next(v):", "            if len(scc) > 2 or v in subgraph.next(v):", ['_checkEG']),
 'eg_no_self_loop': (F, "            if len(scc) > 1 or v in subgraph.next(v):", "            if len(scc) > 1:", ['_checkEG']),
 'eg_and': (F, "            if len(scc) > 1 or v in subgraph.next(v):", "            if len(scc) > 1 and v in subgraph.next(v):", ['_checkEG']),
 'eg_no_reverse': (F, "        subgraph = kripke.get_subgraph(Lphi)\n        subgraph = subgraph.get_reversed_graph()", "        subgraph = kripke.get_subgraph(Lphi)", ['_checkEG']),
 'eg_no_reach': (F, "        L[formula] = subgraph.get_reachable_set_from(T)", "        L[formula] = T", ['_checkEG']),
 'eg_whole_structure': (F, "        subgraph = kripke.get_subgraph(Lphi)\n        subgraph = subgraph.get_reversed_graph()", "        subgraph = kripke.get_subgraph(kripke.states())\n        subgraph = subgraph.get_reversed_graph()", ['_checkEG']),
 'eg_wrong_operand': (F, "        Lphi = _checkStateFormula(kripke, p_formula.subformula(0), L)\n\n        subgraph = kripke.get_subgraph(Lphi)\n        subgraph = subgraph.get_reversed_graph()\n        SCCs", "        Lphi = _checkStateFormula(kripke, p_formula.subformula(0), L)\n\n        subgraph = kripke.get_subgraph(Lphi)\n        subgraph = subgraph.get_reversed_graph().get_reversed_graph()\n        SCCs", ['_checkEG']),
 'eg_memo_wrong_key': (F, "        L[formula] = subgraph.get_reachable_set_from(T)", "        L[p_formula.subformula(0)] = subgraph.get_reachable_set_from(T)\n        L[formula] = L[p_formula.subformula(0)]", ['_checkEG']),
})

C = 'CTLS/language.py'
Lg = 'language.py'
G = 'get_equivalent_restricted_formula'
REWRITE_MUTS = {
 'G_drop_lnot': (C, "        return Lang.Not(Lang.U(True, LNot(subformula)))", "        return Lang.Not(Lang.U(True, subformula))", ['G.'+G]),
 'R_drop_not': (C, "        return Lang.Not(Lang.U(*subformulas))", "        return Lang.U(*subformulas)", ['R.'+G]),
 'Imply_lnot_conseq': (C, "        return Lang.Or(LNot(equiv_sf0),\n                       self.subformula(1).get_equivalent_restricted_formula())", "        return Lang.Or(equiv_sf0,\n                       LNot(self.subformula(1).get_equivalent_restricted_formula()))", ['Imply.'+G]),
 'LNot_noinner': (Lg, "        if isinstance(formula.subformula(0), Not):\n            return LNot(formula.subformula(0).subformula(0))\n        return formula.subformula(0)", "        return formula.subformula(0)", ['LNot']),
 'LNot_norec': (Lg, "            return LNot(formula.subformula(0).subformula(0))", "            return formula.subformula(0).subformula(0)", ['LNot']),
 'F_swap': (C, "        return Lang.U(True, subformula)", "        return Lang.U(subformula, True)", ['F.'+G]),
 'A_noneg': (C, "        return Lang.Not(Lang.E(LNot(subformula)))", "        return Lang.Not(Lang.E(subformula))", ['A.'+G]),
 'And_noouter': (C, "        return Lang.Not(Lang.Or(*subformulas))", "        return Lang.Or(*subformulas)", ['And.'+G]),
 'And_keeps_and': (C, "            subformulas.append(LNot(equi_p))\n\n        Lang = sys.modules[self.__module__]\n        return Lang.Not(Lang.Or(*subformulas))", "            subformulas.append(equi_p)\n\n        Lang = sys.modules[self.__module__]\n        return Lang.And(*subformulas)", ['And.'+G]),
 'X_to_F': (C, "        return Lang.X(subformula)", "        return Lang.U(True, subformula)", ['X.'+G]),
 'U_norec': (C, "            subformulas.append(p.get_equivalent_restricted_formula())\n\n        Lang = sys.modules[self.__module__]\n        return Lang.U(*subformulas)", "            subformulas.append(p)\n\n        Lang = sys.modules[self.__module__]\n        return Lang.U(*subformulas)", ['U.'+G]),
}

CL = 'CTL/language.py'
QA, QE = 'CTL.A.' + G, 'CTL.E.' + G
REWRITE_MUTS.update({
 'ctlA_X_noneg': (CL, "            return Not(EX(neg_sf0))", "            return Not(EX(sf0))", [QA]),
 'ctlA_F_as_G': (CL, "            return Not(EG(neg_sf0))", "            return Not(EU(True, neg_sf0))", [QA]),
 'ctlA_U_wrong_left': (CL, "            return Not(Or(EU(neg_sf1, Not(Or(sf0, sf1))), EG(neg_sf1)))", "            return Not(Or(EU(neg_sf0, Not(Or(sf0, sf1))), EG(neg_sf1)))", [QA]),
 'ctlA_U_no_EG': (CL, "            return Not(Or(EU(neg_sf1, Not(Or(sf0, sf1))), EG(neg_sf1)))", "            return Not(EU(neg_sf1, Not(Or(sf0, sf1))))", [QA]),
 'ctlA_R_swapped': (CL, "            return Not(EU(neg_sf0, neg_sf1))", "            return Not(EU(neg_sf1, neg_sf0))", [QA]),
 'ctlE_F_swapped': (CL, "            return EU(True, sf0)", "            return EU(sf0, True)", [QE]),
 'ctlE_R_no_EG': (CL, "            return Or(EU(sf1, Not(Or(neg_sf0, neg_sf1))), EG(sf1))", "            return EU(sf1, Not(Or(neg_sf0, neg_sf1)))", [QE]),
 'ctlE_R_wrong_left': (CL, "            return Or(EU(sf1, Not(Or(neg_sf0, neg_sf1))), EG(sf1))", "            return Or(EU(sf0, Not(Or(neg_sf0, neg_sf1))), EG(sf1))", [QE]),
 'ctlE_G_norec': (CL, "            return EG(sf0)", "            return EG(p_formula.subformula(0))", [QE]),
 'ctlE_U_keeps_F': (CL, "            return EU(sf0, sf1)", "            return EU(sf0, Or(sf1, EF(sf1)))", [QE]),
 'ctl_EX_is_EF': (CL, "    return E(X(psi))", "    return E(F(psi))", ['EX']),
 'ctl_EU_swapped': (CL, "    return E(U(psi, phi))", "    return E(U(phi, psi))", ['EU']),
})


B = 'BDD/BDD.py'
BDD_MUTS = {
 'fi_wrong_test': (B, "        lh_test = (lambda low, high: high is node.high)\n", "        lh_test = (lambda low, high: low is node.low)\n", ['find_isomorph']),
 'fi_wrong_set': (B, "        node_set = low.f_low\n", "        node_set = high.f_low\n", ['find_isomorph']),
 'fi_no_var': (B, "        if (isinstance(node, BDDNonTerminalNode) and var == node.var and\n                lh_test(low, high)):", "        if (isinstance(node, BDDNonTerminalNode) and\n                lh_test(low, high)):", ['find_isomorph']),
 'new_no_reduction': (B, "        if low is high:\n            return low\n\n        node = find_isomorph", "        node = find_isomorph", ['BDDNonTerminalNode.__new__']),
 'new_no_lookup': (B, "        node = find_isomorph(var, low, high)\n        if node is not None:\n            return node\n", "", ['BDDNonTerminalNode.__new__']),
 'new_swapped': (B, "        node.__reset__(var, low, high)\n\n        return node", "        node.__reset__(var, high, low)\n\n        return node", ['BDDNonTerminalNode.__new__']),
 'reset_no_fhigh': (B, "        self.high.f_high.add(self)\n", "", ['BDDNonTerminalNode.__reset__']),
 'reset_wrong_parent': (B, "        self.low.f_low.add(self)\n", "        self.high.f_low.add(self)\n", ['BDDNonTerminalNode.__reset__']),
 'reset_fields_swapped': (B, "        self.low = low\n        self.high = high\n", "        self.low = high\n        self.high = low\n", ['BDDNonTerminalNode.__reset__']),
 'base_reset_keeps_sets': (B, "        self.f_low = WeakSet()\n        self.f_high = WeakSet()", "        self.f_low = WeakSet()", ['BDDNode.__reset__']),
}

CTLS_MUTS = {
 'ctls_no_clone': ('CTLS/model_checking.py', "        kripkeC = kripke.clone()\n", "        kripkeC = kripke\n", ['CTLS.modelcheck']),
 'ctls_returns_S0': ('CTLS/model_checking.py', "        return CTL.modelcheck(kripkeC, CTL_frml)", "        CTL.modelcheck(kripkeC, CTL_frml)\n        return kripke.S0", ['CTLS.modelcheck']),
 'ctls_label_into_next': ('CTLS/model_checking.py', "            kripke.labels(s).add(f_atom)", "            kripke.next(s).add(f_atom)", ['_remove_state_subformulas']),
 'ctls_label_into_S0': ('CTLS/model_checking.py', "            kripke.labels(s).add(f_atom)", "            kripke.labels(s).add(f_atom)\n            kripke.S0.add(s)", ['_remove_state_subformulas']),
 'ctls_label_all': ('CTLS/model_checking.py', "            kripke.labels(s).add(f_atom)", "            kripke.labels().add(f_atom)\n            kripke.labels(f_atom).add(f_atom)", ['_remove_state_subformulas']),
 'ctls_quantified_no_index': ('CTLS/model_checking.py', "    subformula = _remove_state_subformulas(kripke, formula.subformula(0),\n", "    subformula = _remove_state_subformulas(kripke, formula.subformula(1),\n", ['_checkQuantifiedFormula']),
 'fresh_label_unconditional': ('CTLS/model_checking.py', "    while f_atom in atoms:\n        f_atom = '[{}({})]'.format(f_str, i)\n        i += 1\n", "", ['_get_a_new_atomic_proposition_for']),
 'fresh_label_wrong_test': ('CTLS/model_checking.py', "    while f_atom in atoms:", "    while f_str in atoms and i < 1:", ['_get_a_new_atomic_proposition_for']),
}

LTL_MUTS = {
 'ltl_drop_lnot': ('LTL/model_checking.py', "        p_formula = LNot(formula.subformula(0))\n", "        p_formula = formula.subformula(0)\n", ['LTL.modelcheck']),
 'ltl_no_complement': ('LTL/model_checking.py', "        return set(kripke.states())-_checkE_path_formula(kripke, p_formula)", "        return _checkE_path_formula(kripke, p_formula)", ['LTL.modelcheck']),
 'ltl_no_rewrite': ('LTL/model_checking.py', "        p_formula = p_formula.get_equivalent_restricted_formula()\n", "", ['LTL.modelcheck']),
 'ltl_guard': ('LTL/model_checking.py', "    if not (isinstance(formula, CTLS.A)):", "    if not (isinstance(formula, CTLS.A) or isinstance(formula, CTLS.E)):", ['LTL.modelcheck']),
}

PARSER_MUTS = {
 'parser_swap_classes': ('parser.py', "        except exceptions.UnexpectedToken as e:\n            ex_class = UnexpectedToken", "        except exceptions.UnexpectedToken as e:\n            ex_class = UnexpectedCharacters", ['Parser.__call__']),
 'parser_pos_zero': ('parser.py', "            ex_class = UnexpectedCharacters\n            pos = int(e.pos_in_stream)", "            ex_class = UnexpectedCharacters\n            pos = 0", ['Parser.__call__']),
 'parser_untranslated': ('parser.py', "        except exceptions.UnexpectedCharacters as e:\n            ex_class = UnexpectedCharacters\n            pos = int(e.pos_in_stream)\n", "", ['Parser.__call__']),
 'parser_args_swapped': ('parser.py', "        raise ex_class(string, pos)", "        raise ex_class(pos, string)", ['Parser.__call__']),
}

FAIR_MUTS = {
 'fair_label_into_next': ('kripke.py', "            self._labels[s].add(f_label)", "            self._next[s].add(f_label)", ['Kripke.label_fair_states']),
 'fair_label_into_S0': ('kripke.py', "            self._labels[s].add(f_label)", "            self._labels[s].add(f_label)\n            self.S0.add(s)", ['Kripke.label_fair_states']),
 'fair_states_alias': ('kripke.py', "        return R_graph.get_reachable_set_from(F_set)", "        R_graph.get_reachable_set_from(F_set)\n        return self.S0", ['Kripke.get_fair_states']),
 'fair_states_unknown_node': ('kripke.py', "        return R_graph.get_reachable_set_from(F_set)", "        F_set.add(None)\n        return R_graph.get_reachable_set_from(F_set)", ['Kripke.get_fair_states']),
 'fair_mc_no_clone': ('CTL/model_checking.py', "        kripke = kripke.clone()\n", "", ['CTL.modelcheck(fair)']),
 'fair_scc_first_of_F': ('kripke.py', "            if len(scc) == 1 or v not in self.next(v):", "            if len(scc) == 1 or v not in self.next(len(scc)):", ['Kripke.get_fair_states.<locals>.is_a_fair_SCC']),
}

BDD_OP_MUTS = {
 'inv_children_swapped': (B, "        r_cache[self] = BDDNonTerminalNode(self.var,\n                                           self.low.__invert__(r_cache),\n                                           self.high.__invert__(r_cache))", "        r_cache[self] = BDDNonTerminalNode(self.var,\n                                           self.high.__invert__(r_cache),\n                                           self.low.__invert__(r_cache))", ['BDDNonTerminalNode.__invert__']),
 'inv_high_not_inverted': (B, "                                           self.high.__invert__(r_cache))", "                                           self.high)", ['BDDNonTerminalNode.__invert__']),
 'inv_terminal_identity': (B, "        r_cache[self] = BDDTerminalNode(not self.value)", "        r_cache[self] = BDDTerminalNode(self.value)", ['BDDTerminalNode.__invert__']),
 'inv_cache_wrong_key': (B, "        r_cache[self] = BDDTerminalNode(not self.value)\n\n        return r_cache[self]", "        res = BDDTerminalNode(not self.value)\n        r_cache[res] = res\n\n        return res", ['BDDTerminalNode.__invert__']),
 'restrict_value_swapped': (B, "        if value:\n            return cache_restrict(bdd.high, var, value, r_cache)\n        else:\n            return cache_restrict(bdd.low, var, value, r_cache)", "        if value:\n            return cache_restrict(bdd.low, var, value, r_cache)\n        else:\n            return cache_restrict(bdd.high, var, value, r_cache)", ['compute_restrict']),
 'restrict_test_flipped': (B, "    if bdd.var == var:\n        if value:", "    if bdd.var != var:\n        if value:", ['compute_restrict']),
 'apply_sons_swapped': (B, "    low = apply(operator, A.low, B, ordering, r_cache)\n    high = apply(operator, A.high, B, ordering, r_cache)\n    return BDDNonTerminalNode(A.var, low, high)", "    low = apply(operator, A.high, B, ordering, r_cache)\n    high = apply(operator, A.low, B, ordering, r_cache)\n    return BDDNonTerminalNode(A.var, low, high)", ['BDDsons_and_BDD']),
 'apply_wrong_var': (B, "    low = apply(operator, A, B.low, ordering, r_cache)\n    high = apply(operator, A, B.high, ordering, r_cache)\n    return BDDNonTerminalNode(B.var, low, high)", "    low = apply(operator, A, B.low, ordering, r_cache)\n    high = apply(operator, A, B.low, ordering, r_cache)\n    return BDDNonTerminalNode(B.var, low, high)", ['BDD_and_BDDsons']),
 'apply_both_mixed': (B, "    low = apply(operator, A.low, B.low, ordering, r_cache)\n    high = apply(operator, A.high, B.high, ordering, r_cache)", "    low = apply(operator, A.low, B.high, ordering, r_cache)\n    high = apply(operator, A.high, B.low, ordering, r_cache)", ['BDDsons_and_BDDsons']),
 'compute_operands_swapped': (B, "            return BDDTerminalNode(operator(A.value, B.value))", "            return BDDTerminalNode(operator(B.value, A.value))", ['compute']),
 'compute_same_var_one_side': (B, "    if A.var == B.var:\n        return BDDsons_and_BDDsons(operator, A, B, ordering, r_cache)", "    if A.var == B.var:\n        return BDDsons_and_BDDsons(operator, A, A, ordering, r_cache)", ['compute']),
 'apply_cache_row_shared': (B, "    if A not in r_cache:\n        r_cache[A] = dict()", "    if A not in r_cache:\n        r_cache[A] = r_cache.get(B, dict())", ['apply']),
 'apply_cache_transposed': (B, "    if B in r_cache[A]:\n        return r_cache[A][B]", "    if B in r_cache[A] and A in r_cache[B]:\n        return r_cache[B][A]", ['apply']),
}
BDD_OP_MUTS.update({
 'compute_same_var_as_sons_of_A': (B, "    if A.var == B.var:\n        return BDDsons_and_BDDsons(operator, A, B, ordering, r_cache)", "    if A.var == B.var:\n        return BDDsons_and_BDD(operator, A, B, ordering, r_cache)", ['compute']),
 'compute_order_test_flipped': (B, "    if (isinstance(B, BDDTerminalNode) or ordering.in_order(A.var, B.var)):\n        return BDDsons_and_BDD(operator, A, B, ordering, r_cache)", "    if (isinstance(B, BDDTerminalNode) or ordering.in_order(B.var, A.var)):\n        return BDDsons_and_BDD(operator, A, B, ordering, r_cache)", ['compute']),
})
BDD_OP_MUTS.update({
 'terminal_wrong_constant': (B, "            node.__reset__(value)\n", "            node.__reset__(not value)\n", ['BDDTerminalNode.__new__']),
 'terminal_not_recorded': (B, "            BDDTerminalNode.Tnodes[value] = node\n", "", ['BDDTerminalNode.__new__']),
 'terminal_reset_no_value': (B, "        super(BDDTerminalNode, self).__reset__()\n        self.value = value", "        super(BDDTerminalNode, self).__reset__()\n        self.value = True", ['BDDTerminalNode.__reset__']),
})
BDD_OP_MUTS.update({
 'desc_no_high': (B, "                stack.append(node.low)\n                stack.append(node.high)\n\n    return desc", "                stack.append(node.low)\n\n    return desc", ['descendents']),
 'desc_ignores_checked': (B, "        if node not in desc and node not in checked:\n            desc.add(node)\n\n            if (isinstance(node, BDDNonTerminalNode)):", "        if node not in desc:\n            desc.add(node)\n\n            if (isinstance(node, BDDNonTerminalNode)):", ['descendents']),
 'desc_adds_children_directly': (B, "                stack.append(node.low)\n                stack.append(node.high)\n\n    return desc", "                desc.add(node.low)\n                stack.append(node.high)\n\n    return desc", ['descendents']),
 'variables_of_terminals': (B, "                    if isinstance(node, BDDNonTerminalNode)])", "                    if isinstance(node, BDDTerminalNode)])", ['BDDNode.variables']),
 'variables_of_self_only': (B, "        return set([node.var for node in self.descendents()\n                    if isinstance(node, BDDNonTerminalNode)])", "        return set([node.var for node in [self]\n                    if isinstance(node, BDDNonTerminalNode)])", ['BDDNode.variables']),
})
O = 'BDD/OBDD.py'
BDD_OP_MUTS.update({
 'node_restrict_one_is_false': (B, "            if value == 1:\n                value = True", "            if value == 1:\n                value = False", ['BDDNode.restrict']),
 'node_restrict_no_type_test': (B, "        if not (isinstance(var, str) and isinstance(value, bool)):", "        if not (isinstance(value, bool)):", ['BDDNode.restrict']),
 'obdd_restrict_identity': (O, "        return OBDD(self.root.restrict(var, value), self.ordering)", "        return OBDD(self.root, self.ordering)", ['OBDD.restrict']),
 'obdd_and_is_or': (O, "        return self.apply((lambda a, b: a and b), A)", "        return self.apply((lambda a, b: a or b), A)", ['OBDD.__and__']),
 'obdd_xor_is_or': (O, "        return self.apply((lambda a, b: a ^ b), A)", "        return self.apply((lambda a, b: a | b), A)", ['OBDD.__xor__']),
 'obdd_or_one_sided': (O, "        return self.apply((lambda a, b: a or b), A)", "        return self.apply((lambda a, b: a or a), A)", ['OBDD.__or__']),
 'obdd_ordering_test_flipped': (O, "        if self.ordering != B.ordering:", "        if self.ordering == B.ordering:", ['OBDD.apply']),
 'obdd_operands_swapped': (O, "        bdd = BDDapply(operator, self.root, B.root, self.ordering,", "        bdd = BDDapply(operator, B.root, self.root, self.ordering,", ['OBDD.apply']),
 'obdd_invert_identity': (O, "        return OBDD(~self.root, self.ordering)", "        return OBDD(self.root, self.ordering)", ['OBDD.__invert__']),
 'obdd_result_other_ordering': (O, "        return OBDD(bdd, self.ordering, check_ordering=False)", "        return OBDD(B.root, self.ordering, check_ordering=False)", ['OBDD.apply']),
})

OBDD_PARSE_MUTS = {
 'parse_and_as_or': (O, "    if isinstance(node.op, ast.BitAnd):\n        return (parse_binary_expr(ordering, node.left) &", "    if isinstance(node.op, ast.BitAnd):\n        return (parse_binary_expr(ordering, node.left) |", ['parse_binary_op']),
 'parse_and_unit_false': (O, "        result = OBDD(BDDNode(True), ordering)\n", "        result = OBDD(BDDNode(False), ordering)\n", ['parse_binary_binary_op']),
 'parse_or_uses_and': (O, "            result = result | parse_binary_expr(ordering, arg)", "            result = result & parse_binary_expr(ordering, arg)", ['parse_binary_binary_op']),
 'parse_name_true_is_false': (O, "    if node.id == 'True':\n        return OBDD(BDDNode(True), ordering)", "    if node.id == 'True':\n        return OBDD(BDDNode(False), ordering)", ['parse_name']),
 'parse_name_children_swapped': (O, "    return OBDD(BDDNode(node.id, BDDNode(False), BDDNode(True)), ordering)", "    return OBDD(BDDNode(node.id, BDDNode(True), BDDNode(False)), ordering)", ['parse_name']),
 'parse_not_dropped': (O, "        return ~parse_binary_expr(ordering, node.operand)", "        return parse_binary_expr(ordering, node.operand)", ['parse_binary_unary_op']),
 'parse_constant_only_zero': (O, "        if node.value in [0, 1]:", "        if node.value in [0]:", ['parse_binary_expr']),
 'parse_skips_last_operand_kind': (O, "    if isinstance(node, ast.UnaryOp):\n        return parse_binary_unary_op(ordering, node)", "    if isinstance(node, ast.UnaryOp):\n        return parse_binary_expr(ordering, node.operand)", ['parse_binary_expr']),
 'parse_or_accepts_any_boolop': (O, "    if isinstance(node.op, ast.Or):\n        result = OBDD(BDDNode(False), ordering)", "    if not isinstance(node.op, ast.And):\n        result = OBDD(BDDNode(False), ordering)", ['parse_binary_binary_op']),
}

BY_PROPERTY = {'C13': [GRAPH_MUTS], 'C14': [KRIPKE_MUTS], 'C01': [CTL_MUTS], 'C05': [REWRITE_MUTS], 'C16': [BDD_MUTS], 'C03': [CTLS_MUTS], 'C07': [CTLS_MUTS], 'C15': [FAIR_MUTS], 'C17': [BDD_OP_MUTS], 'C18': [OBDD_PARSE_MUTS], 'C02': [LTL_MUTS], 'C10': [PARSER_MUTS]}
# equivalent mutants (the change does not alter behaviour) are excluded from the requirement
EQUIVALENT = {'sub_S0_all'}


def _work(arg):
    name, relfile, old, new, fns, timeout_ms = arg
    from . import run
    tmp = tempfile.mkdtemp(prefix='planted_')
    try:
        shutil.copytree(os.path.join(core.REPO, 'pyModelChecking'), os.path.join(tmp, 'pyModelChecking'))
        p = os.path.join(tmp, 'pyModelChecking', relfile)
        s = open(p).read()
        if s.count(old) != 1:
            return name, 'not-applicable', 'anchor text not found (source changed)'
        open(p, 'w').write(s.replace(old, new))
        failed = []
        from .engine import Unsupported
        for q in fns:
            # (stops at the first obligation that fails: one is enough, and a broken body can fail dozens)
            try:
                E = run.build_engine(tmp, timeout_ms, 0)
                E.escalations_left = 0
                obls, info, _ = E.verify(q)
            except Unsupported as e:
                failed.append('%s: extraction failure' % q)
                continue
            except Exception as e:
                failed.append('%s: extraction failure (internal: %s)' % (q, type(e).__name__))
                continue
            for o in obls:
                E.discharge(o)
                if o.status != 'discharged':
                    failed.append(o.name)
                    break
        return name, ('detected' if failed else 'MISSED'), '; '.join(failed[:3])
    finally:
        shutil.rmtree(tmp, ignore_errors=True)


def run_for(ctx, prop, timeout_ms=8000):
    jobs = []
    for table in BY_PROPERTY.get(prop, []):
        for name, (relfile, old, new, fns) in table.items():
            if name not in EQUIVALENT:
                jobs.append((name, relfile, old, new, fns, timeout_ms))
    res = ctx.pmap(_work, jobs, chunksize=1)
    missed = [r for r in res if r[1] == 'MISSED']
    ctx.notes.append('planted-defect self-test: %d changes, %d detected, %d not applicable, %d missed'
                     % (len(res), sum(1 for r in res if r[1] == 'detected'),
                        sum(1 for r in res if r[1] == 'not-applicable'), len(missed)))
    ctx.planted = [{'change': r[0], 'result': r[1], 'failed': r[2]} for r in res]
    if missed:
        raise RuntimeError('planted-defect self-test: the generator verified a broken body: %s' % [m[0] for m in missed])
