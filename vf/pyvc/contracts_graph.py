"""Sidecar contracts for pyModelChecking/graph.py (property C13; callers in
C01, C14, C15 rely on them).  Postconditions are stated over the whole abstract
view (V, E) and are taken from the statement of C13; loop invariants are keyed by
loop ordinal in source order.  See DESIGN.md 3/C13 and Appendix A.1."""
import z3

from . import heap as hp
from .heap import H
from .engine import Contract

I = z3.IntSort()


def X(n='x'):
    return hp.fresh(n, H)


# ---- abstract view ----------------------------------------------------------

def nx(h, g):
    return h.field('_next', g)


def V(h, g):
    return h.ddom(nx(h, g))


def sref(h, g, s):
    return h.dval(nx(h, g))[s]


def succ(h, g, s):
    return h.set_of(sref(h, g, s))


def edge(h, g, s, d):
    return z3.And(V(h, g)[s], succ(h, g, s)[d])


def is_source(h, g, s):
    """s has at least one outgoing edge (choice-function form of `exists d. edge(s, d)`)"""
    return z3.And(V(h, g)[s], hp.nonempty(succ(h, g, s)))


def wfG(h, g):
    s, t, d = X('s'), X('t'), X('d')
    return z3.And(
        nx(h, g) >= 0, nx(h, g) < h.alloc,
        z3.ForAll([s], z3.Implies(V(h, g)[s], z3.And(sref(h, g, s) >= 0, sref(h, g, s) < h.alloc))),
        z3.ForAll([s, d], z3.Implies(edge(h, g, s, d), V(h, g)[d])),
        z3.ForAll([s, t], z3.Implies(z3.And(V(h, g)[s], V(h, g)[t], s != t), sref(h, g, s) != sref(h, g, t))))


def fresh_graph(h0, h1, g):
    """the graph object's dict and successor sets were allocated after h0"""
    s = X('s')
    return z3.And(nx(h1, g) >= h0.alloc,
                  z3.ForAll([s], z3.Implies(V(h1, g)[s], sref(h1, g, s) >= h0.alloc)),
                  # the successor sets are allocated after the dictionary that refers to them
                  z3.ForAll([s], z3.Implies(V(h1, g)[s], sref(h1, g, s) > nx(h1, g))))


def optset(sv):
    """contents of an optional iterable-of-H argument (empty when None), as one z3 term"""
    if sv.ty == 'opt':
        return z3.If(sv.x[0], hp.empty_set(), sv.x[1].x.mem)
    if sv.ty == 'none':
        return hp.empty_set()
    return sv.x.mem


def optrel(sv):
    return optrel_term(sv)


def optrel_term(sv):
    """the relation argument as a z3 term of sort Rel (argument of isend)"""
    if sv.ty == 'opt':
        return z3.If(sv.x[0], hp.EMPTY_REL, sv.x[1].x.mem)
    if sv.ty == 'none':
        return hp.EMPTY_REL
    return sv.x.mem


def frame(h0, h1, bound, exempt=None):
    """named frame clauses: every component unchanged below `bound`, except
    the references selected by exempt[comp](r)"""
    r = z3.Int('r!f')
    out = []
    exempt = exempt or {}
    for k in hp.COMPONENTS:
        if h0[k] is h1[k] or z3.eq(h0[k], h1[k]) or hp.COMPONENTS[k].domain() != I:
            continue
        cond = z3.And(r >= 0, r < bound)
        if k in exempt:
            cond = z3.And(cond, z3.Not(exempt[k](r)))
        out.append(('unchanged:' + k, z3.ForAll([r], z3.Implies(cond, h0[k][r] == h1[k][r]))))
    return out


def view_same(h0, h1, g):
    """the abstract view of graph g is the same in h0 and h1"""
    s, d = X('s'), X('d')
    return z3.And(z3.ForAll([s], V(h0, g)[s] == V(h1, g)[s]),
                  z3.ForAll([s, d], edge(h0, g, s, d) == edge(h1, g, s, d)))


def justified_clause(h, g, N, R, c):
    """every element of R is a start node or has a G-predecessor in R; proved in existential form on
    the callee side, assumed in skolemised form (a fresh witness function per call) on the caller side"""
    x, u = X(), X('u')
    if c.side == 'callee':
        return z3.ForAll([x], z3.Implies(R[x], z3.Or(N[x], z3.Exists([u], z3.And(R[u], edge(h, g, u, x))))))
    pred = z3.Function('reach_pred!%d' % next(hp._counter), H, H)
    c.sk['pred'] = pred
    return z3.ForAll([x], z3.Implies(R[x], z3.Or(N[x], z3.And(R[pred(x)], edge(h, g, pred(x), x)))), patterns=[R[x]])


def closed_under(h, g, Z):
    """Z is closed under the edges of graph g"""
    u, v = X('u'), X('v')
    return z3.ForAll([u, v], z3.Implies(z3.And(Z[u], edge(h, g, u, v)), Z[v]))


def reach_least_instance(c, Zt):
    """instance at the set Zt of the `least` clause of get_reachable_set_from's postcondition
    (c: the call context of that call)"""
    R = c.h1.set_of(c.res.t)
    return z3.Implies(z3.And(hp.subset(c.nodes.x.mem, Zt), closed_under(c.h0, c.self.t, Zt)), hp.subset(R, Zt))


# ---- contracts ----------------------------------------------------------------

class _LoopSetArg(object):
    """a loop context whose contract context reads a set-typed `nodes` argument as a collection"""
    def __init__(self, lc):
        self.__dict__['lc'] = lc

    def __getattr__(self, name):
        lc = self.__dict__['lc']
        if name == 'c':
            c = lc.c

            class _C(object):
                def __getattr__(self_, n_):
                    if n_ == 'nodes':
                        return hp.SV('coll', None, hp.Coll('H', c.h0.set_of(c.nodes.t), True))
                    return getattr(c, n_)
            return _C()
        return getattr(lc, name)


def make():
    K = []

    # -- __init__ -------------------------------------------------------------
    def init_ens(c):
        s, d, y = X('s'), X('d'), X('y')
        h1, g = c.h1, c.self.t
        Vs, Es = optset(c.V), optrel(c.E)
        return [
            ('nodes_only_given', z3.ForAll([s], z3.Implies(V(h1, g)[s], z3.Or(Vs[s], hp.isend(optrel_term(c.E), s))))),
            ('nodes_all_given', z3.ForAll([s], z3.Implies(Vs[s], V(h1, g)[s]))),
            ('nodes_all_ends', z3.ForAll([s, y], z3.Implies(Es[s, y], z3.And(V(h1, g)[s], V(h1, g)[y])))),
            ('edges', z3.ForAll([s, d], edge(h1, g, s, d) == Es[s, d])),
            ('wf', wfG(h1, g)),
            ('fresh', fresh_graph(c.h0, h1, g)),
        ]

    def init_frame(c):
        g = c.self.t
        return frame(c.h0, c.h1, c.h0.alloc, {'fld__next': lambda r: r == g})

    def init_common(lc):
        c, h, g = lc.c, lc.h, lc.c.self.t
        s, t = X('s'), X('t')
        return [
            ('dict_is_own', z3.And(nx(h, g) == nx(lc.h_entry, g), nx(h, g) >= c.h0.alloc, nx(h, g) < h.alloc)),
            ('alloc', h.alloc >= lc.h_entry.alloc),
            ('sets_fresh', z3.ForAll([s], z3.Implies(V(h, g)[s], z3.And(sref(h, g, s) >= c.h0.alloc, sref(h, g, s) < h.alloc)))),
            ('sets_distinct', z3.ForAll([s, t], z3.Implies(z3.And(V(h, g)[s], V(h, g)[t], s != t), sref(h, g, s) != sref(h, g, t)))),
            ('sets_above_dict', z3.ForAll([s], z3.Implies(V(h, g)[s], sref(h, g, s) > nx(h, g)))),
        ] + frame(c.h0, h, c.h0.alloc, {'fld__next': lambda r: r == g})

    def init_l1(lc):
        h, g = lc.h, lc.c.self.t
        s, d = X('s'), X('d')
        return init_common(lc) + [
            ('dom_is_seen', z3.ForAll([s], V(h, g)[s] == lc.seen[s])),
            ('no_edges', z3.ForAll([s, d], z3.Not(edge(h, g, s, d)))),
        ]

    def init_l2(lc):
        c, h, g = lc.c, lc.h, lc.c.self.t
        s, d, y = X('s'), X('d'), X('y')
        Vs = optset(c.V)
        return init_common(lc) + [
            ('dom_only_given', z3.ForAll([s], z3.Implies(V(h, g)[s], z3.Or(Vs[s], hp.isend(lc.seen, s))))),
            ('dom_all_given', z3.ForAll([s], z3.Implies(Vs[s], V(h, g)[s]))),
            ('dom_all_ends', z3.ForAll([s, y], z3.Implies(lc.seen[s, y], z3.And(V(h, g)[s], V(h, g)[y])))),
            ('edges_are_seen', z3.ForAll([s, d], edge(h, g, s, d) == lc.seen[s, d])),
        ]

    K.append(Contract(
        'DiGraph.__init__', 'graph', [('self', 'graph'), ('V', 'opt:iterH'), ('E', 'opt:iterPair')], ret='none',
        requires=lambda c: [('self_valid', z3.And(c.self.t >= 0, c.self.t < c.h0.alloc))],
        ensures=init_ens, frame=init_frame,
        may_write=lambda c, comp, ref: z3.And(ref == c.self.t) if comp == 'fld__next' else None,
        loops={1: init_l1, 2: init_l2}, touches={'dd', 'dv', 'sets', 'fld__next'}, loop_touches={1: {'dd', 'dv', 'sets'}, 2: {'dd', 'dv', 'sets'}}, owner='C13'))

    # -- add_node -------------------------------------------------------------
    def addnode_ens(c):
        s, d = X('s'), X('d')
        h0, h1, g, v = c.h0, c.h1, c.self.t, c.v.t
        return [
            ('nodes', z3.ForAll([s], V(h1, g)[s] == z3.Or(V(h0, g)[s], s == v))),
            ('edges', z3.ForAll([s, d], edge(h1, g, s, d) == edge(h0, g, s, d))),
            ('wf', wfG(h1, g)),
            ('old_sets_kept', z3.ForAll([s], z3.Implies(V(h0, g)[s], sref(h1, g, s) == sref(h0, g, s)))),
            ('new_set_fresh', sref(h1, g, v) >= h0.alloc),
            ('same_dict', nx(h1, g) == nx(h0, g)),
        ]

    def mut_frame(c):
        g = c.self.t
        d0 = nx(c.h0, g)
        return frame(c.h0, c.h1, c.h0.alloc, {'dd': lambda r: r == d0, 'dv': lambda r: r == d0})

    K.append(Contract(
        'DiGraph.add_node', 'graph', [('self', 'graph'), ('v', 'H')], ret='none',
        requires=lambda c: [('wf', wfG(c.h0, c.self.t))],
        ensures=addnode_ens, frame=mut_frame,
        raises={'RuntimeError': lambda c: V(c.h0, c.self.t)[c.v.t]},
        may_write=lambda c, comp, ref: (ref == nx(c.h0, c.self.t)) if comp in ('dd', 'dv') else None,
        touches={'dd', 'dv', 'sets'}, owner='C13'))

    # -- add_edge -------------------------------------------------------------
    def addedge_ens(c):
        s, d = X('s'), X('d')
        h0, h1, g, a, b = c.h0, c.h1, c.self.t, c.src.t, c.dst.t
        return [
            ('nodes', z3.ForAll([s], V(h1, g)[s] == z3.Or(V(h0, g)[s], s == a, s == b))),
            ('edges', hp.FA([s, d], edge(h1, g, s, d) == z3.Or(edge(h0, g, s, d), z3.And(s == a, d == b)), [succ(h1, g, s)[d], succ(h0, g, s)[d]])),
            ('wf', wfG(h1, g)),
            ('old_sets_kept', z3.ForAll([s], z3.Implies(V(h0, g)[s], sref(h1, g, s) == sref(h0, g, s)))),
            ('new_sets_fresh', z3.ForAll([s], z3.Implies(z3.And(V(h1, g)[s], z3.Not(V(h0, g)[s])), sref(h1, g, s) >= h0.alloc))),
            ('same_dict', nx(h1, g) == nx(h0, g)),
        ]

    def addedge_frame(c):
        g = c.self.t
        d0 = nx(c.h0, g)
        sr = sref(c.h0, g, c.src.t)
        return frame(c.h0, c.h1, c.h0.alloc, {'dd': lambda r: r == d0, 'dv': lambda r: r == d0,
                                              'sets': lambda r: z3.And(V(c.h0, g)[c.src.t], r == sr)})

    def addedge_may_write(c, comp, ref):
        g = c.self.t
        if comp in ('dd', 'dv'):
            return ref == nx(c.h0, g)
        if comp == 'sets':
            return z3.And(V(c.h0, g)[c.src.t], ref == sref(c.h0, g, c.src.t))
        return None

    K.append(Contract(
        'DiGraph.add_edge', 'graph', [('self', 'graph'), ('src', 'H'), ('dst', 'H')], ret='none',
        requires=lambda c: [('wf', wfG(c.h0, c.self.t))],
        ensures=addedge_ens, frame=addedge_frame,
        raises={'RuntimeError': lambda c: edge(c.h0, c.self.t, c.src.t, c.dst.t)},
        may_write=addedge_may_write, touches={'dd', 'dv', 'sets'}, owner='C13'))

    # -- sources ----------------------------------------------------------------
    def sources_ens(c):
        s, d = X('s'), X('d')
        return [('yields_exactly_sources',
                 z3.ForAll([s], c.yH[s] == is_source(c.h0, c.self.t, s)))]

    def sources_l1(lc):
        c = lc.c
        s, d = X('s'), X('d')
        return [('yielded', z3.ForAll([s], lc.yH[s] == z3.And(lc.seen[s], is_source(c.h0, c.self.t, s))))] \
            + frame(c.h0, lc.h, c.h0.alloc) + [('alloc', lc.h.alloc >= c.h0.alloc)]

    K.append(Contract(
        'DiGraph.sources', 'graph', [('self', 'graph')], generator='H',
        requires=lambda c: [('wf', wfG(c.h0, c.self.t))],
        ensures=sources_ens, loops={1: sources_l1}, pure=True, loop_touches={1: set()}, owner='C13'))

    # -- nodes / next -------------------------------------------------------------
    K.append(Contract(
        'DiGraph.nodes', 'graph', [('self', 'graph')], ret='keys',
        ensures=lambda c: [('alias_of_keys', c.res.t == nx(c.h0, c.self.t))], pure=True, owner='C13'))

    K.append(Contract(
        'DiGraph.next', 'graph', [('self', 'graph'), ('src', 'H')], ret='set',
        ensures=lambda c: [('alias_of_successors', c.res.t == sref(c.h0, c.self.t, c.src.t))],
        raises={'RuntimeError': lambda c: z3.Not(V(c.h0, c.self.t)[c.src.t])}, pure=True, owner='C13'))

    # -- edges_iter / edges ----------------------------------------------------------
    def edges_iter_ens(c):
        s, d = X('s'), X('d')
        return [('yields_exactly_edges', hp.FA([s, d], c.yP[s, d] == edge(c.h0, c.self.t, s, d),
                                               [c.yP[s, d], succ(c.h0, c.self.t, s)[d]]))]

    def ei_l1(lc):
        c = lc.c
        s, d = X('s'), X('d')
        return [('yielded', z3.ForAll([s, d], lc.yP[s, d] == z3.And(lc.seen[s], edge(c.h0, c.self.t, s, d))))] \
            + frame(c.h0, lc.h, c.h0.alloc) + [('alloc', lc.h.alloc >= c.h0.alloc)]

    def ei_l2(lc):
        c = lc.c
        s, d = X('s'), X('d')
        src = lc.env['src'].t
        outer = lc.outer[1]
        return [('yielded', z3.ForAll([s, d], lc.yP[s, d] == z3.Or(z3.And(outer[s], edge(c.h0, c.self.t, s, d)),
                                                                  z3.And(s == src, lc.seen[d])))),
                ('src_is_node', z3.And(V(c.h0, c.self.t)[src], z3.Not(outer[src]))),
                ('dsts_alias', lc.env['dsts'].t == sref(c.h0, c.self.t, src))] \
            + frame(c.h0, lc.h, c.h0.alloc) + [('alloc', lc.h.alloc >= c.h0.alloc)]

    K.append(Contract(
        'DiGraph.edges_iter', 'graph', [('self', 'graph')], generator='pair',
        requires=lambda c: [('wf', wfG(c.h0, c.self.t))],
        ensures=edges_iter_ens, loops={1: ei_l1, 2: ei_l2}, pure=True, loop_touches={1: set(), 2: set()}, owner='C13'))

    def edges_ens(c):
        s, d = X('s'), X('d')
        return [('list_of_edges', hp.FA([s, d], c.h1.rel_of(c.res.t)[s, d] == edge(c.h0, c.self.t, s, d),
                                        [c.h1.rel_of(c.res.t)[s, d], succ(c.h0, c.self.t, s)[d]])),
                ('fresh', c.res.t >= c.h0.alloc)]

    K.append(Contract(
        'DiGraph.edges', 'graph', [('self', 'graph')], ret='pairlist',
        requires=lambda c: [('wf', wfG(c.h0, c.self.t))], ensures=edges_ens, touches={'rels'}, owner='C13'))

    # -- clone ----------------------------------------------------------------------
    def clone_ens(c):
        s, d = X('s'), X('d')
        h0, h1, g, r = c.h0, c.h1, c.self.t, c.res.t
        return [
            ('nodes', z3.ForAll([s], V(h1, r)[s] == V(h0, g)[s])),
            ('edges', hp.FA([s, d], edge(h1, r, s, d) == edge(h0, g, s, d), [succ(h1, r, s)[d], succ(h0, g, s)[d]])),
            ('wf', wfG(h1, r)),
            ('fresh', z3.And(r >= h0.alloc, r < h1.alloc, fresh_graph(h0, h1, r))),
        ]

    def clone_l1(lc):
        c, h = lc.c, lc.h
        g, n = c.self.t, lc.env['nDG'].t
        s, t, d = X('s'), X('t'), X('d')
        return [
            ('new_object', z3.And(n >= c.h0.alloc, n < h.alloc, nx(h, n) >= c.h0.alloc, nx(h, n) < h.alloc)),
            ('dom_is_seen', z3.ForAll([s], V(h, n)[s] == lc.seen[s])),
            ('copied', z3.ForAll([s, d], z3.Implies(lc.seen[s], succ(h, n, s)[d] == succ(c.h0, g, s)[d]))),
            ('sets_fresh', z3.ForAll([s], z3.Implies(lc.seen[s], z3.And(sref(h, n, s) >= c.h0.alloc, sref(h, n, s) < h.alloc)))),
            ('sets_distinct', z3.ForAll([s, t], z3.Implies(z3.And(lc.seen[s], lc.seen[t], s != t), sref(h, n, s) != sref(h, n, t)))),
            ('sets_above_dict', z3.And(nx(h, n) == nx(lc.h_entry, n), nx(h, n) < lc.h_entry.alloc,
                                       z3.ForAll([s], z3.Implies(lc.seen[s], sref(h, n, s) > nx(h, n))))),
            ('alloc', h.alloc >= lc.h_entry.alloc),
        ] + frame(c.h0, h, c.h0.alloc)

    K.append(Contract(
        'DiGraph.clone', 'graph', [('self', 'graph')], ret='graph',
        requires=lambda c: [('wf', wfG(c.h0, c.self.t))],
        ensures=clone_ens, loops={1: clone_l1}, touches={'dd', 'dv', 'sets', 'fld__next'}, loop_touches={1: {'dd', 'dv', 'sets'}}, owner='C13'))

    # -- get_subgraph ------------------------------------------------------------------
    def sub_ens(c):
        s, d = X('s'), X('d')
        h0, h1, g, r = c.h0, c.h1, c.self.t, c.res.t
        N = c.nodes.x.mem
        return [
            ('nodes', z3.ForAll([s], V(h1, r)[s] == z3.And(N[s], V(h0, g)[s]))),
            ('edges', hp.FA([s, d], edge(h1, r, s, d) == z3.And(edge(h0, g, s, d), N[s], N[d]), [succ(h1, r, s)[d], succ(h0, g, s)[d]])),
            ('wf', wfG(h1, r)),
            ('fresh', z3.And(r >= h0.alloc, r < h1.alloc, fresh_graph(h0, h1, r))),
        ]

    K.append(Contract(
        'DiGraph.get_subgraph', 'graph', [('self', 'graph'), ('nodes', 'iterH')], ret='graph',
        requires=lambda c: [('wf', wfG(c.h0, c.self.t))], ensures=sub_ens, touches={'dd', 'dv', 'sets', 'fld__next', 'rels'}, owner='C13'))

    # -- get_reversed_graph --------------------------------------------------------------
    def rev_ens(c):
        s, d = X('s'), X('d')
        h0, h1, g, r = c.h0, c.h1, c.self.t, c.res.t
        return [
            ('nodes', z3.ForAll([s], V(h1, r)[s] == V(h0, g)[s])),
            ('edges', hp.FA([s, d], edge(h1, r, s, d) == edge(h0, g, d, s), [succ(h1, r, s)[d], succ(h0, g, d)[s]])),
            ('wf', wfG(h1, r)),
            ('fresh', z3.And(r >= h0.alloc, r < h1.alloc, fresh_graph(h0, h1, r))),
        ]

    K.append(Contract(
        'DiGraph.get_reversed_graph', 'graph', [('self', 'graph')], ret='graph',
        requires=lambda c: [('wf', wfG(c.h0, c.self.t))], ensures=rev_ens, touches={'dd', 'dv', 'sets', 'fld__next', 'rels'}, owner='C13'))

    # -- get_reachable_set_from -------------------------------------------------------------
    closed = closed_under

    def reach_skolems(c):
        c.sk['Z'] = hp.fresh('Z', hp.SetH)

    def reach_req(c):
        out = [('wf', wfG(c.h0, c.self.t))]
        if c.side == 'callee':
            # arbitrary closed superset of the start set (skolemised second-order quantifier of `least`)
            Z = c.sk['Z']
            out.append(('Z_contains_start', hp.subset(c.nodes.x.mem, Z)))
            out.append(('Z_closed', closed(c.h0, c.self.t, Z)))
        return out

    def reach_ens(c):
        h0, h1, g = c.h0, c.h1, c.self.t
        R = h1.set_of(c.res.t)
        N = c.nodes.x.mem
        out = [
            ('contains_start', hp.subset(N, R)),
            ('closed_under_edges', closed(h0, g, R)),
            ('only_nodes', hp.subset(R, V(h0, g))),
            ('fresh', z3.And(c.res.t >= h0.alloc, c.res.t < h1.alloc)),
            ('justified', justified_clause(h0, g, N, R, c)),
        ]
        if c.side == 'callee':
            out.append(('least', hp.subset(R, c.sk['Z'])))
        else:
            Z = z3.Const('Z!least', hp.SetH)
            out.append(('least', z3.ForAll([Z], z3.Implies(z3.And(hp.subset(N, Z), closed(h0, g, Z)), hp.subset(R, Z)))))
        return out

    def reach_common(lc, exempt_s=None):
        c, h = lc.c, lc.h
        g = c.self.t
        N = c.nodes.x.mem
        Rr, Qr = lc.env['R'].t, lc.env['queue'].t
        R, Q = h.set_of(Rr), h.set_of(Qr)
        u, v, x = X('u'), X('v'), X()
        cond = z3.And(R[u], z3.Not(Q[u]), edge(c.h0, g, u, v))
        if exempt_s is not None:
            cond = z3.And(cond, u != exempt_s)
        return [
            ('start_in_R', hp.subset(N, R)),
            ('queue_in_R', hp.subset(Q, R)),
            ('R_in_Z', hp.subset(R, c.sk['Z'])),
            ('processed_closed', z3.ForAll([u, v], z3.Implies(cond, R[v]))),
            ('start_pending_or_node', z3.ForAll([x], z3.Implies(N[x], z3.Or(V(c.h0, g)[x], Q[x])))),
            ('R_nodes_or_start', z3.ForAll([x], z3.Implies(R[x], z3.Or(V(c.h0, g)[x], N[x])))),
            ('R_justified', z3.ForAll([x], z3.Implies(R[x], z3.Or(N[x], z3.Exists([u], z3.And(R[u], edge(c.h0, g, u, x))))))),
            ('alloc', h.alloc >= lc.h_entry.alloc),
        ] + frame(c.h0, h, c.h0.alloc)

    def reach_l1(lc):
        return reach_common(lc)

    def reach_l2(lc):
        h = lc.h
        s = lc.env['s'].t
        R = h.set_of(lc.env['R'].t)
        return reach_common(lc, exempt_s=s) + [
            ('s_is_processed', z3.And(R[s], V(lc.c.h0, lc.c.self.t)[s])),
            ('seen_in_R', hp.subset(lc.seen, R)),
        ]

    K.append(Contract(
        'DiGraph.get_reachable_set_from', 'graph', [('self', 'graph'), ('nodes', 'iterH')], ret='set',
        requires=reach_req, ensures=reach_ens, skolems=reach_skolems,
        raises={'RuntimeError': lambda c: z3.Not(hp.subset(c.nodes.x.mem, V(c.h0, c.self.t)))},
        loops={1: reach_l1, 2: reach_l2}, touches={'sets'}, loop_touches={1: {'sets'}, 2: {'sets'}}, owner='C13'))

    # the same function when the caller passes a SET OBJECT (possibly one of the graph's own successor sets, as
    # next() hands them out): the argument is neither written nor returned
    class _SetArg(object):
        def __init__(self, c):
            self.__dict__['c'] = c

        def __getattr__(self, name):
            c = self.__dict__['c']
            if name == 'nodes':
                return hp.SV('coll', None, hp.Coll('H', c.h0.set_of(c.nodes.t), True))
            return getattr(c, name)

    def reach_set_req(c):
        return reach_req(_SetArg(c)) + [('argument_valid', z3.And(c.nodes.t >= 0, c.nodes.t < c.h0.alloc))]

    def reach_set_ens(c):
        return reach_ens(_SetArg(c)) + [('argument_unchanged', c.h1.set_of(c.nodes.t) == c.h0.set_of(c.nodes.t)),
                                        ('result_is_not_the_argument', c.res.t != c.nodes.t)]

    K.append(Contract(
        'DiGraph.get_reachable_set_from(set)', 'graph', [('self', 'graph'), ('nodes', 'set')], ret='set',
        requires=reach_set_req, ensures=reach_set_ens, skolems=reach_skolems,
        raises={'RuntimeError': lambda c: z3.Not(hp.subset(c.h0.set_of(c.nodes.t), V(c.h0, c.self.t)))},
        loops={1: lambda lc: reach_l1(_LoopSetArg(lc)), 2: lambda lc: reach_l2(_LoopSetArg(lc))},
        touches={'sets'}, loop_touches={1: {'sets'}, 2: {'sets'}},
        hints={'path': 'DiGraph.get_reachable_set_from'}, owner='C13',
        note='argument of type set (aliasing with the caller\'s or the graph\'s own sets allowed)'))

    # -- compute_SCCs: ASSUMED contract (the statement of C12; the body - iterative Nuutila with
    #    explicit stacks, integer time stamps and a yield inside try/except inside while - is out of
    #    the generator's subset; C12 checks it by exhaustive bounded exploration) --------------------
    def scc_ens(c):
        h0, h1, g = c.h0, c.h1, c.G.t
        if 'E' not in c.sk:
            c.sk['E'] = hp.fresh('E_scc', hp.Rel)                                    # the graph's edge relation, named
            c.sk['compof'] = z3.Function('scc_of!%d' % next(hp._counter), H, I)       # the component that holds a node
        E, compof = c.sk['E'], c.sk['compof']
        Rt = hp.rtc(E)
        a, b, x, y = X('a'), X('b'), X(), X('y')
        r, r2 = z3.Int('r!scc'), z3.Int('r2!scc')
        C = lambda q: h1.set_of(q)       # noqa
        return [
            ('edge_relation', hp.FA([a, b], E[a, b] == edge(h0, g, a, b), [E[a, b], succ(h0, g, a)[b]])),
            ('components_are_new_lists', z3.ForAll([r], z3.Implies(c.yR[r], z3.And(r >= h0.alloc, r < h1.alloc)))),
            ('components_nonempty', z3.ForAll([r], z3.Implies(c.yR[r], hp.nonempty(C(r))))),
            ('components_within_nodes', z3.ForAll([r, x], z3.Implies(z3.And(c.yR[r], C(r)[x]), V(h0, g)[x]))),
            ('mutually_reachable', z3.ForAll([r, x, y], z3.Implies(z3.And(c.yR[r], C(r)[x], C(r)[y]), Rt[x, y]),
                                             patterns=[z3.MultiPattern(c.yR[r], C(r)[x], C(r)[y])])),
            ('maximal', z3.ForAll([r, x, y], z3.Implies(z3.And(c.yR[r], C(r)[x], V(h0, g)[y], Rt[x, y], Rt[y, x]), C(r)[y]),
                                  patterns=[z3.MultiPattern(c.yR[r], C(r)[x], Rt[x, y])])),
            ('every_node_in_a_component', z3.ForAll([x], z3.Implies(V(h0, g)[x], z3.And(c.yR[compof(x)], C(compof(x))[x])))),
            ('in_one_component_only', z3.ForAll([r, r2, x], z3.Implies(z3.And(c.yR[r], c.yR[r2], C(r)[x], C(r2)[x]), r == r2))),
        ]

    K.append(Contract(
        'compute_SCCs', 'graph', [('G', 'graph')], generator='ref',
        requires=lambda c: [('wf', wfG(c.h0, c.G.t))], ensures=scc_ens,
        touches={'sets'}, hints={'yield_ty': 'dlist'}, owner='C12', assumed=True,
        note='ASSUMED: the statement of C12 (each node in exactly one yielded list; same list iff mutually reachable), over '
             'rtc = reflexive-transitive closure of the edge relation; yielded lists are new objects without repetitions'))

    return K


FILE = 'graph.py'
