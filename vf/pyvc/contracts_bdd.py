"""Sidecar contracts for the hash-consing table of pyModelChecking/BDD/BDD.py
(property C16; C17 relies on the node constructor).  Nodes are references with
fields var/low/high (terminals: value); the weak parent sets f_low/f_high are sets
of references.  Garbage collection is not modelled (TB7): the invariant ranges
over every node ever registered, which is the stronger statement.

Table invariant Inv(h):
  A. n in m.f_low  ->  n, m allocated, n non-terminal, n.low is m, n in n.high.f_high, n.low is not n.high
  B. n in m.f_high ->  ... n.high is m, n in n.low.f_low ...
  C. two registered non-terminals with the same (var, low, high) are the same object
where `registered(n)` is  n in n.low.f_low  (what __reset__ establishes)."""
import z3

from . import heap as hp
from .heap import SV, Coll, H
from .driver import Extension
from .engine import Contract, Unsupported

FILE = 'BDD/BDD.py'
I = z3.IntSort()


def R(n='n'):
    return hp.fresh(n, I)


def var(h, n):
    return h['b_var'][n]


def low(h, n):
    return h['b_low'][n]


def high(h, n):
    return h['b_high'][n]


def term(h, n):
    return h['b_term'][n]


def fl(h, m):
    return h['b_fl'][m]


def fh(h, m):
    return h['b_fh'][m]


def val(h, n):
    return h['b_val'][n]


def den(h, n):
    """GHOST: the Boolean function node n denotes (an array from assignments to Bool)"""
    return h['b_den'][n]


ISSTR = z3.Function('is_a_string', H, z3.BoolSort())             # isinstance(var, str) for a variable name (uninterpreted)
SAMEORD = z3.Function('same_ordering', I, I, z3.BoolSort())      # Ordering.__eq__ (uninterpreted)
OP = z3.Function('boolean_operator', I, z3.BoolSort(), z3.BoolSort(), z3.BoolSort())   # a binary operator passed as a value
POS = z3.Function('position_in_ordering', I, H, I)      # ListOrdering: in_order(x, y) is position(x) < position(y)


def INORD(o, a, b):
    return POS(o, a) < POS(o, b)


def resp(h, n):
    """GHOST: the orderings node n's diagram respects"""
    return h['b_resp'][n]


def above(h, o, v, n):
    """variable v comes strictly before the variable tested at n (or n is a terminal)"""
    return z3.Or(term(h, n), INORD(o, v, var(h, n)))


def resp_inv(h, exclude=None):
    """GHOST invariant: a constructed non-terminal respects an ordering iff its variable comes before its
    children's and the children respect it; terminals respect every ordering"""
    n = z3.Int('n!rsp')
    o = z3.Int('o!rsp')
    ok = z3.And(n >= 0, n < h.alloc, h['b_node'][n]) if exclude is None else z3.And(n >= 0, n < h.alloc, h['b_node'][n], n != exclude)
    okl = z3.BoolVal(True) if exclude is None else (low(h, n) != exclude)
    return z3.And(
        z3.ForAll([n, o], z3.Implies(z3.And(ok, okl, registered(h, n)),
                                     resp(h, n)[o] == z3.And(above(h, o, var(h, n), low(h, n)), resp(h, low(h, n))[o],
                                                             above(h, o, var(h, n), high(h, n)), resp(h, high(h, n))[o])),
                  patterns=[resp(h, n)[o]]),
        z3.ForAll([n, o], z3.Implies(z3.And(ok, term(h, n)), resp(h, n)[o]), patterns=[resp(h, n)[o]]))


def registered(h, n):
    # (the low child must be an existing object: what lies beyond the allocation counter is not constrained)
    return z3.And(z3.Not(term(h, n)), low(h, n) >= 0, low(h, n) < h.alloc, h['b_node'][low(h, n)], fl(h, low(h, n))[n])


def triple(h, n, v, lo, hi):
    return z3.And(var(h, n) == v, low(h, n) == lo, high(h, n) == hi)


def inv(h, exclude=None):
    """exclude: an allocated but not yet initialised object (between object.__new__ and __reset__)"""
    m, n = z3.Ints('m!inv n!inv')
    if exclude is None:
        ok = lambda x: z3.And(x >= 0, x < h.alloc, h['b_node'][x])     # noqa
    else:
        ok = lambda x: z3.And(x >= 0, x < h.alloc, h['b_node'][x], x != exclude)     # noqa
    return z3.And(
        hp.FA([m, n], z3.Implies(z3.And(ok(m), fl(h, m)[n]),
                                 z3.And(ok(n), z3.Not(term(h, n)), low(h, n) == m, ok(high(h, n)), fh(h, high(h, n))[n],
                                        low(h, n) != high(h, n))), [fl(h, m)[n]]),
        hp.FA([m, n], z3.Implies(z3.And(ok(m), fh(h, m)[n]),
                                 z3.And(ok(n), z3.Not(term(h, n)), high(h, n) == m, ok(low(h, n)), fl(h, low(h, n))[n],
                                        low(h, n) != high(h, n))), [fh(h, m)[n]]),
        z3.ForAll([m, n], z3.Implies(z3.And(ok(m), ok(n), ok(low(h, m)), registered(h, m), registered(h, n),
                                            var(h, m) == var(h, n), low(h, m) == low(h, n), high(h, m) == high(h, n)), m == n)))


def node_ok(h, n):
    """an existing node object that went through a constructor"""
    return z3.And(n >= 0, n < h.alloc, h['b_node'][n], z3.Or(term(h, n), registered(h, n)))


def den_inv(h, exclude=None):
    """GHOST invariant: the denotation stored with every constructed node is the Shannon expansion of its
    children's (non-terminals) or its constant (terminals)"""
    n = z3.Int('n!den')
    sg = z3.Const('sigma!den', hp.SetH)
    ok = z3.And(n >= 0, n < h.alloc, h['b_node'][n]) if exclude is None else z3.And(n >= 0, n < h.alloc, h['b_node'][n], n != exclude)
    okl = z3.BoolVal(True) if exclude is None else (low(h, n) != exclude)
    return z3.And(
        z3.ForAll([n, sg], z3.Implies(z3.And(ok, okl, registered(h, n)),
                                      den(h, n)[sg] == z3.If(sg[var(h, n)], den(h, high(h, n))[sg], den(h, low(h, n))[sg])),
                  patterns=[den(h, n)[sg]]),
        z3.ForAll([n, sg], z3.Implies(z3.And(ok, term(h, n)), den(h, n)[sg] == val(h, n)), patterns=[den(h, n)[sg]]))


def children_ok(h):
    """children of constructed non-terminals are constructed nodes (follows the table invariant's shape)"""
    n = z3.Int('n!ch')
    return z3.ForAll([n], z3.Implies(z3.And(n >= 0, n < h.alloc, h['b_node'][n], registered(h, n)),
                                     z3.And(node_ok(h, low(h, n)), node_ok(h, high(h, n)))), patterns=[low(h, n), high(h, n)])


class BddExt(Extension):
    def on(self, ex):
        return ex.k.hints.get('ext') == 'bdd'

    def global_name(self, E, k, name):
        if k.hints.get('ext') != 'bdd':
            return None
        if name in ('BDDNonTerminalNode', 'BDDTerminalNode', 'BDDNode'):
            return SV('bclass', None, name)
        if name == 'WeakSet':
            return SV('func', None, ('bdd', 'WeakSet'))
        if name == 'find_isomorph':
            return SV('func', None, ('contract', 'find_isomorph'))
        if name == 'BDDapply':
            return SV('func', None, ('contract', 'apply'))       # `from .BDD import apply as BDDapply`
        if name == 'Ordering':
            return SV('bclass', None, 'Ordering')
        return None

    def attribute(self, E, ex, base, attr, path, node):
        if not self.on(ex):
            return None
        h = path.heap
        if base.ty == 'bnode':
            if attr == 'var':
                return SV('H', var(h, base.t))
            if attr == 'low':
                return SV('bnode', low(h, base.t))
            if attr == 'high':
                return SV('bnode', high(h, base.t))
            if attr == 'f_low':
                return SV('wset', None, ('b_fl', base.t))
            if attr == 'f_high':
                return SV('wset', None, ('b_fh', base.t))
            if attr == 'value':
                return SV('bool', val(h, base.t))
            return SV('bound', None, (base, attr))
        if base.ty == 'ordering':
            return SV('bound', None, (base, attr))
        if base.ty == 'bclass' and base.x == 'BDDTerminalNode' and attr == 'Tnodes':
            return SV('tnodes')
        if base.ty == 'obdd':
            if attr == 'root':
                return SV('bnode', h['o_root'][base.t])
            if attr == 'ordering':
                return SV('ordering', h['o_ord'][base.t])
            return SV('bound', None, (base, attr))
        if base.ty == 'wset':
            return SV('bound', None, (base, attr))
        return None

    def set_attribute(self, E, ex, base, attr, v, path, st):
        if self.on(ex) and base.ty == 'obdd' and attr in ('root', 'ordering'):
            h = path.heap
            comp = 'o_root' if attr == 'root' else 'o_ord'
            if v.ty != ('bnode' if attr == 'root' else 'ordering'):
                raise Unsupported('OBDD field %s := %s' % (attr, v.ty))
            E.check_write(ex, (comp, base.t), path, st)
            path.heap = h.with_(**{comp: z3.Store(h[comp], base.t, v.t)})
            return True
        if not self.on(ex) or base.ty != 'bnode':
            return False
        h = path.heap
        if attr == 'value':
            if v.ty != 'bool':
                raise Unsupported('terminal value := %s' % v.ty)
            E.check_write(ex, ('b_val', base.t), path, st)
            path.heap = h.with_(b_val=z3.Store(h['b_val'], base.t, v.t))
            return True
        comp = {'var': 'b_var', 'low': 'b_low', 'high': 'b_high', 'f_low': 'b_fl', 'f_high': 'b_fh'}.get(attr)
        if comp is None:
            raise Unsupported('field %s' % attr)
        if attr in ('f_low', 'f_high'):
            if v.ty != 'newwset':
                raise Unsupported('weak set field := %s' % v.ty)
            val = z3.K(I, z3.BoolVal(False))
        elif attr == 'var':
            val = v.t
        else:
            if v.ty != 'bnode':
                raise Unsupported('field %s := %s' % (attr, v.ty))
            val = v.t
        E.check_write(ex, (comp, base.t), path, st)
        path.heap = h.with_(**{comp: z3.Store(h[comp], base.t, val)})
        return True

    def member(self, E, ex, a, b, path, node):
        if self.on(ex) and a.ty == 'bnode' and b.ty in ('refdict', 'refdict2'):
            return path.heap['rd_dom'][b.t][a.t]
        if self.on(ex) and a.ty == 'bool' and b.ty == 'tnodes':
            return path.heap['tn_has'][a.t]
        return None

    def subscript(self, E, ex, base, idx, path, node):
        if self.on(ex) and base.ty == 'tnodes' and idx.ty == 'bool':
            h = path.heap
            ex.may_raise('KeyError', z3.Not(h['tn_has'][idx.t]), path, node)
            return SV('bnode', h['tn_ref'][idx.t])
        if self.on(ex) and base.ty in ('refdict', 'refdict2') and idx.ty == 'bnode':
            h = path.heap
            ex.may_raise('KeyError', z3.Not(h['rd_dom'][base.t][idx.t]), path, node)
            return SV('bnode' if base.ty == 'refdict' else 'refdict', h['rd_val'][base.t][idx.t])
        return None

    def assign_subscript(self, E, ex, base, idx, v, path, st):
        if self.on(ex) and base.ty == 'tnodes' and idx.ty == 'bool' and v.ty == 'bnode':
            h = path.heap
            path.heap = h.with_(tn_has=z3.Store(h['tn_has'], idx.t, True), tn_ref=z3.Store(h['tn_ref'], idx.t, v.t))
            return True
        if not self.on(ex) or base.ty not in ('refdict', 'refdict2') or idx.ty != 'bnode':
            return False
        if v.ty != ('bnode' if base.ty == 'refdict' else 'refdict'):
            raise Unsupported('cache entry of type %s' % v.ty)
        h = path.heap
        E.check_write(ex, ('rd_dom', base.t), path, st)
        path.heap = h.with_(rd_dom=z3.Store(h['rd_dom'], base.t, z3.Store(h['rd_dom'][base.t], idx.t, True)),
                            rd_val=z3.Store(h['rd_val'], base.t, z3.Store(h['rd_val'][base.t], idx.t, v.t)))
        return True

    def param_value(self, E, ex, name, ty, heap, pc):
        if ty == 'boolop':
            return SV('boolop', hp.fresh(name, I))
        if ty == 'ordering':
            return SV('ordering', hp.fresh(name, I))
        if ty == 'cls':
            return SV('str')
        return None

    def call_value(self, E, ex, fn, args, kwargs, path, node):
        if not self.on(ex):
            return None
        if fn.ty == 'boolop' and len(args) == 2 and all(a.ty == 'bool' for a in args):
            return SV('bool', OP(fn.t, args[0].t, args[1].t))
        if fn.ty == 'bclass' and fn.x == 'BDDNode' and len(args) == 1 and args[0].ty in ('bool', 'aconstv'):
            # BDDNode.__new__(cls, *data) with one datum dispatches to BDDTerminalNode(data[0])
            a0 = args[0]
            if a0.ty == 'aconstv':
                from .contracts_obddparse import aconst
                ex.oblige('safety:terminal_value_is_0_or_1:L%d' % node.lineno, path, z3.And(aconst(a0.t) >= 0, aconst(a0.t) <= 1), ('safety',), node.lineno)
                a0 = SV('bool', aconst(a0.t) == 1)
            return E.call_contract(ex, 'BDDTerminalNode.__new__', [SV('str'), a0], kwargs, path, node)
        if fn.ty == 'bclass' and fn.x == 'BDDNode' and len(args) == 3:
            # ... and with three data to BDDNonTerminalNode(*data)
            return E.call_contract(ex, 'BDDNonTerminalNode.__new__', [SV('str')] + args, kwargs, path, node)
        if fn.ty == 'bclass' and fn.x == 'BDDNonTerminalNode' and len(args) == 3:
            return E.call_contract(ex, 'BDDNonTerminalNode.__new__', [SV('str')] + args, kwargs, path, node)
        if fn.ty == 'bclass' and fn.x == 'BDDTerminalNode' and len(args) == 1 and args[0].ty == 'bool':
            return E.call_contract(ex, 'BDDTerminalNode.__new__', [SV('str')] + args, kwargs, path, node)
        return None

    def binop(self, E, ex, op, a, b, path, node):
        if self.on(ex) and a.ty == 'obdd' and b.ty == 'obdd' and op in ('BitAnd', 'BitOr', 'BitXor'):
            q = {'BitAnd': 'OBDD.__and__', 'BitOr': 'OBDD.__or__', 'BitXor': 'OBDD.__xor__'}[op]
            return E.call_contract(ex, q, [a, b], {}, path, node)
        return None

    def equal(self, E, ex, a, b, path, node):
        if self.on(ex) and a.ty == 'ordering' and b.ty == 'ordering':
            return SAMEORD(a.t, b.t)
        return None

    def coerce(self, E, ex, sv, ty, path):
        if self.on(ex) and ty == 'boolop' and sv.ty == 'lambda':
            # a lambda over two Booleans passed as the operator: a fresh operator value defined by the body
            lam = sv.x
            names = [a_.arg for a_ in lam.args.args]
            if len(names) != 2:
                raise Unsupported('operator lambda arity')
            x, y = z3.Bool('x!op'), z3.Bool('y!op')
            sub = path.fork()
            sub.env[names[0]], sub.env[names[1]] = SV('bool', x), SV('bool', y)
            body = ex.ev(lam.body, sub)
            if body.ty != 'bool':
                raise Unsupported('operator lambda returns %s' % body.ty)
            op = hp.fresh('operator', I)
            path.pc.append(z3.ForAll([x, y], OP(op, x, y) == body.t, patterns=[OP(op, x, y)]))
            return SV('boolop', op)
        return None

    def isinstance(self, E, ex, a, cls, path, node):
        if self.on(ex) and a.ty == 'H' and cls.ty == 'func' and cls.x[0] == 'builtin' and cls.x[1] == 'str':
            return SV('bool', ISSTR(a.t))
        if self.on(ex) and cls.ty == 'bclass' and cls.x == 'Ordering' and a.ty == 'ordering':
            return SV('bool', z3.BoolVal(True))
        if self.on(ex) and cls.ty == 'func' and cls.x[0] == 'ctor' and cls.x[1] == 'OBDD' and a.ty == 'obdd':
            return SV('bool', z3.BoolVal(True))
        if not self.on(ex) or a.ty not in ('bnode',) or cls.ty != 'bclass':
            return None
        if cls.x == 'BDDNode':
            return SV('bool', z3.BoolVal(True))
        t = term(path.heap, a.t)
        return SV('bool', z3.Not(t) if cls.x == 'BDDNonTerminalNode' else t)

    def builtin_len(self, E, ex, a, n, path):
        if self.on(ex) and a.ty == 'wset':
            return SV('int', n)        # the size of a weak set is any natural number
        return None

    def call_func(self, E, ex, fn, args, kwargs, path, node):
        if fn.x[0] == 'bdd' and fn.x[1] == 'WeakSet':
            return SV('newwset')
        return None

    def method(self, E, ex, base, attr, args, kwargs, path, node):
        if not self.on(ex):
            return None
        h = path.heap
        if base.ty == 'wset' and attr == 'add' and args[0].ty == 'bnode':
            comp, ref = base.x
            E.check_write(ex, (comp, ref), path, node)
            path.heap = h.with_(**{comp: z3.Store(h[comp], ref, z3.Store(h[comp][ref], args[0].t, True))})
            return hp.NONE
        if base.ty == 'bnode' and attr == '__reset__' and len(args) == 1:
            return E.call_contract(ex, 'BDDTerminalNode.__reset__', [base] + args, kwargs, path, node)
        if base.ty == 'bnode' and attr == '__reset__':
            return E.call_contract(ex, 'BDDNonTerminalNode.__reset__', [base] + args, kwargs, path, node)
        if base.ty == 'bnode' and attr == '__invert__':
            # dynamic dispatch: both bodies (terminal / non-terminal) are verified against the same clauses
            return E.call_contract(ex, 'BDDNonTerminalNode.__invert__', [base] + args, kwargs, path, node)
        if base.ty == 'obdd' and attr == '__invert__' and not args:
            return E.call_contract(ex, 'OBDD.__invert__', [base], kwargs, path, node)
        if base.ty == 'bnode' and attr in ('descendents', 'variables') and not args:
            return E.call_contract(ex, 'BDDNode.%s' % attr, [base], kwargs, path, node)
        if base.ty == 'bnode' and attr == 'restrict':
            return E.call_contract(ex, 'BDDNode.restrict', [base] + args, kwargs, path, node)
        if base.ty == 'bnode' and attr == 'respect_ordering':
            return SV('bool', hp.fresh('respects', z3.BoolSort()))      # not modelled: either answer
        if base.ty == 'obdd' and attr == 'apply':
            return E.call_contract(ex, 'OBDD.apply', [base] + args, kwargs, path, node)
        if base.ty == 'ordering' and attr == 'in_order' and len(args) == 2 and all(a.ty == 'H' for a in args):
            return SV('bool', INORD(base.t, args[0].t, args[1].t))
        return None

    def super_call(self, E, ex, cls, attr, node, path):
        if not self.on(ex):
            return None
        if attr == '__new__':
            # object.__new__(cls): a new object, registered nowhere, fields unset
            r, h = path.heap.new()
            # isinstance(node, BDDNonTerminalNode) is decided by the class: cls is that class
            is_terminal_class = ex.k.qualname.startswith('BDDTerminalNode')
            path.heap = h.with_(b_term=z3.Store(h['b_term'], r, z3.BoolVal(is_terminal_class)), b_node=z3.Store(h['b_node'], r, z3.BoolVal(True)))
            return SV('bnode', r)
        if attr == '__reset__' and cls in ('BDDNonTerminalNode', 'BDDTerminalNode'):
            recv = ex.ev(node.func.value.args[1], path)
            return E.call_contract(ex, 'BDDNode.__reset__', [recv], {}, path, node)
        return None

    def coerce_return(self, E, ex, val, ret, path):
        if not self.on(ex):
            return None
        if ret == 'bnodeopt':
            if val.ty == 'none':
                return SV('bnodeopt', z3.IntVal(-1))
            if val.ty == 'bnode':
                return SV('bnodeopt', val.t)
        if ret == 'bnode' and val.ty == 'bnodeopt':
            ex.oblige('safety:returns_a_node', path, val.t != -1, ('safety',))
            return SV('bnode', val.t)
        return None

    def as_coll_hook(self, sv, path):
        return None


def install(E):
    ext = BddExt()
    E.ext.append(ext)
    common = {'ext': 'bdd'}
    BT = {'b_var', 'b_low', 'b_high', 'b_fl', 'b_fh', 'b_term', 'b_den', 'b_node', 'b_resp'}

    def valid(h, n):
        return z3.And(n >= 0, n < h.alloc, h['b_node'][n])

    # -- find_isomorph -------------------------------------------------------------
    def fi_req(c):
        h = c.h0
        return [('table_invariant', inv(h)), ('low_valid', valid(h, c.low.t)), ('high_valid', valid(h, c.high.t))]

    def fi_ens(c):
        h = c.h0
        n = R()
        r = c.res.t
        v, lo, hi = c.var.t, c.low.t, c.high.t
        return [
            ('found_is_the_node', z3.Implies(r != -1, z3.And(valid(h, r), registered(h, r), triple(h, r, v, lo, hi)))),
            ('none_means_absent', z3.Implies(r == -1, z3.ForAll([n], z3.Implies(z3.And(valid(h, n), registered(h, n)),
                                                                               z3.Not(triple(h, n, v, lo, hi)))))),
        ]

    def fi_l1(lc):
        c, h = lc.c, lc.c.h0
        n = R()
        v, lo, hi = c.var.t, c.low.t, c.high.t
        return [('not_among_seen', z3.ForAll([n], z3.Implies(lc.seen[n], z3.Not(z3.And(z3.Not(term(h, n)), triple(h, n, v, lo, hi)))))),
                ('alloc', lc.h.alloc >= lc.h_entry.alloc)]

    E.register(Contract(
        'find_isomorph', 'bdd', [('var', 'H'), ('low', 'bnode'), ('high', 'bnode')], ret='bnodeopt',
        requires=fi_req, ensures=fi_ens, pure=True, loops={1: fi_l1}, loop_touches={1: set()},
        hints=dict(common), owner='C16'), FILE)

    # -- BDDNode.__reset__ (base class): fresh empty parent sets ---------------------------
    def base_reset_ens(c):
        h1, s_ = c.h1, c.self.t
        n = R()
        return [('empty_parent_sets', z3.ForAll([n], z3.And(z3.Not(fl(h1, s_)[n]), z3.Not(fh(h1, s_)[n])))),
                ('no_allocation', h1.alloc == c.h0.alloc)]

    def own_frame(comps):
        def fr(c):
            s_ = c.self.t
            own = lambda r: r == s_        # noqa
            from .contracts_graph import frame
            return frame(c.h0, c.h1, c.h0.alloc, {k: own for k in comps})
        return fr

    E.register(Contract(
        'BDDNode.__reset__', 'bdd', [('self', 'bnode')], ret='none',
        ensures=base_reset_ens, frame=own_frame(('b_fl', 'b_fh')),
        may_write=lambda c, comp, ref: (ref == c.self.t) if comp in ('b_fl', 'b_fh') else None,
        touches={'b_fl', 'b_fh'}, hints=dict(common), owner='C16'), FILE)

    # -- BDDNonTerminalNode.__reset__ -------------------------------------------------------
    def reset_req(c):
        h, s_, lo, hi = c.h0, c.self.t, c.low.t, c.high.t
        m = R('m')
        return [('table_invariant', inv(h, exclude=s_)), ('self_valid', valid(h, s_)), ('low_valid', valid(h, lo)), ('high_valid', valid(h, hi)),
                ('children_differ', lo != hi), ('children_are_not_self', z3.And(lo != s_, hi != s_)),
                ('self_unregistered', z3.ForAll([m], z3.Implies(z3.And(valid(h, m), m != s_), z3.And(z3.Not(fl(h, m)[s_]), z3.Not(fh(h, m)[s_]))))),
                ('self_is_a_non_terminal', z3.Not(term(h, s_))),
                ('no_isomorph', z3.ForAll([m], z3.Implies(z3.And(valid(h, m), m != s_, registered(h, m)), z3.Not(triple(h, m, c.var.t, lo, hi))))),
                ('ghost_denotations', den_inv(h, exclude=s_)), ('ghost_orderings', resp_inv(h, exclude=s_))]

    def reset_ens(c):
        h0, h1, s_, lo, hi = c.h0, c.h1, c.self.t, c.low.t, c.high.t
        m, n = R('m'), R()
        return [
            ('no_allocation', h1.alloc == h0.alloc),
            ('table_invariant', inv(h1)),
            ('fields', z3.And(triple(h1, s_, c.var.t, lo, hi), registered(h1, s_))),
            ('registrations_low', reg_clause(c, 'b_fl', lo)),
            ('registrations_high', reg_clause(c, 'b_fh', hi)),
            ('other_fields_kept', z3.ForAll([n], z3.Implies(z3.And(valid(h0, n), n != s_),
                                                           z3.And(var(h1, n) == var(h0, n), low(h1, n) == low(h0, n),
                                                                  high(h1, n) == high(h0, n), term(h1, n) == term(h0, n))))),
            ('ghost_denotations', den_inv(h1)),
            ('ghost_denotation_of_self', shannon(h1, s_, c.var.t, lo, hi)),
            ('ghost_orderings', resp_inv(h1)),
        ]

    def shannon(h, n, v, lo, hi):
        sg = z3.Const('sigma!sh', hp.SetH)
        return z3.ForAll([sg], den(h, n)[sg] == z3.If(sg[v], den(h, hi)[sg], den(h, lo)[sg]), patterns=[den(h, n)[sg]])

    def reset_ghost(c, p):
        # GHOST code at the exit of BDDNonTerminalNode.__reset__: record what the node now denotes
        h = p.heap
        s_, lo, hi = c.self.t, c.low.t, c.high.t
        D = hp.fresh('den_of_new_node', z3.ArraySort(hp.SetH, z3.BoolSort()))
        sg = z3.Const('sigma!gh', hp.SetH)
        p.pc.append(z3.ForAll([sg], D[sg] == z3.If(sg[c.var.t], den(h, hi)[sg], den(h, lo)[sg]), patterns=[D[sg]]))
        Rr = hp.fresh('orderings_of_new_node', z3.ArraySort(I, z3.BoolSort()))
        o_ = z3.Int('o!gh')
        p.pc.append(z3.ForAll([o_], Rr[o_] == z3.And(above(h, o_, c.var.t, lo), resp(h, lo)[o_], above(h, o_, c.var.t, hi), resp(h, hi)[o_]),
                              patterns=[Rr[o_]]))
        p.heap = h.with_(b_den=z3.Store(h['b_den'], s_, D), b_resp=z3.Store(h['b_resp'], s_, Rr))

    def reg_clause(c, comp, child):
        h0, h1, s_ = c.h0, c.h1, c.self.t
        m, n = R('m'), R()
        return hp.FA([m, n], z3.Implies(z3.And(m >= 0, m < h0.alloc),
                                        h1[comp][m][n] == z3.Or(z3.And(m != s_, h0[comp][m][n]), z3.And(m == child, n == s_))),
                     [h1[comp][m][n], h0[comp][m][n]])

    def reset_cuts():
        return [lambda c, path: reg_clause(c, 'b_fl', c.low.t), lambda c, path: reg_clause(c, 'b_fh', c.high.t),
                lambda c, path: fields_kept(c)]

    def den_kept(c):
        h0, h1, s_ = c.h0, c.h1, c.self.t
        n = R()
        return hp.FA([n], z3.Implies(z3.And(n != s_, n >= 0, n < h0.alloc), den(h1, n) == den(h0, n)), [den(h1, n)])

    def resp_kept(c):
        h0, h1, s_ = c.h0, c.h1, c.self.t
        n = R()
        return hp.FA([n], z3.Implies(z3.And(n != s_, n >= 0, n < h0.alloc), resp(h1, n) == resp(h0, n)), [resp(h1, n)])

    def old_registered(c):
        h0, h1, s_ = c.h0, c.h1, c.self.t
        n = R()
        return hp.FA([n], z3.Implies(z3.And(n != s_, n >= 0, n < h0.alloc, registered(h1, n)),
                                     z3.And(registered(h0, n), low(h0, n) != s_, high(h0, n) != s_,
                                            low(h0, n) >= 0, low(h0, n) < h0.alloc, high(h0, n) >= 0, high(h0, n) < h0.alloc)),
                     [low(h1, n)])

    def fields_kept(c):
        h0, h1, s_ = c.h0, c.h1, c.self.t
        n = R()
        return hp.FA([n], z3.Implies(z3.And(n != s_, n >= 0, n < h0.alloc), z3.And(var(h1, n) == var(h0, n), low(h1, n) == low(h0, n),
                                                      high(h1, n) == high(h0, n), term(h1, n) == term(h0, n))),
                     [low(h1, n), high(h1, n), var(h1, n), term(h1, n)])

    def reset_frame(c):
        from .contracts_graph import frame
        s_, lo, hi = c.self.t, c.low.t, c.high.t
        return frame(c.h0, c.h1, c.h0.alloc, {'b_var': lambda r: r == s_, 'b_low': lambda r: r == s_, 'b_high': lambda r: r == s_, 'b_den': lambda r: r == s_, 'b_resp': lambda r: r == s_,
                                              'b_fl': lambda r: z3.Or(r == s_, r == lo), 'b_fh': lambda r: z3.Or(r == s_, r == hi)})

    def reset_may_write(c, comp, ref):
        s_, lo, hi = c.self.t, c.low.t, c.high.t
        if comp in ('b_var', 'b_low', 'b_high'):
            return ref == s_
        if comp == 'b_fl':
            return z3.Or(ref == s_, ref == lo)
        if comp == 'b_fh':
            return z3.Or(ref == s_, ref == hi)
        return None

    E.register(Contract(
        'BDDNonTerminalNode.__reset__', 'bdd', [('self', 'bnode'), ('var', 'H'), ('low', 'bnode'), ('high', 'bnode')], ret='none',
        requires=reset_req, ensures=reset_ens, frame=reset_frame, may_write=reset_may_write,
        touches=set(BT), hints=dict(common, cuts={'ensures:table_invariant': reset_cuts(),
                                           'ensures:ghost_denotations': reset_cuts() + [lambda c, path: den_kept(c), lambda c, path: old_registered(c)],
                                           'ensures:ghost_orderings': reset_cuts() + [lambda c, path: resp_kept(c), lambda c, path: old_registered(c)]},
                                    ghost_exit=reset_ghost), owner='C16'), FILE)

    # -- BDDNonTerminalNode.__new__ -----------------------------------------------------------
    def new_req(c):
        h = c.h0
        return [('table_invariant', inv(h)), ('low_valid', valid(h, c.low.t)), ('high_valid', valid(h, c.high.t)),
                ('ghost_denotations', den_inv(h)), ('ghost_orderings', resp_inv(h)), ('children_are_nodes', children_ok(h)),
                ('operands_are_nodes', z3.And(node_ok(h, c.low.t), node_ok(h, c.high.t)))]

    def new_ens(c):
        h0, h1, r, lo, hi = c.h0, c.h1, c.res.t, c.low.t, c.high.t
        m, n = R('m'), R()
        return [
            ('table_invariant', inv(h1)),
            ('reduction', z3.Implies(lo == hi, r == lo)),
            ('the_node_with_the_triple', z3.Implies(lo != hi, z3.And(valid(h1, r), registered(h1, r), triple(h1, r, c.var.t, lo, hi)))),
            ('old_nodes_kept', z3.ForAll([n], z3.Implies(valid(h0, n), z3.And(var(h1, n) == var(h0, n), low(h1, n) == low(h0, n),
                                                                             high(h1, n) == high(h0, n), term(h1, n) == term(h0, n),
                                                                             h1['b_node'][n], den(h1, n) == den(h0, n), val(h1, n) == val(h0, n),
                                                                             resp(h1, n) == resp(h0, n))))),
            ('old_registrations_kept', z3.ForAll([m, n], z3.Implies(z3.And(valid(h0, m), valid(h0, n)),
                                                                    z3.And(fl(h1, m)[n] == fl(h0, m)[n], fh(h1, m)[n] == fh(h0, m)[n])))),
            ('ghost_denotations', den_inv(h1)),
            ('ghost_denotes_the_shannon_expansion', shannon(h1, r, c.var.t, lo, hi)),
            ('ghost_orderings', resp_inv(h1)),
            ('children_are_nodes', children_ok(h1)),
            ('result_is_a_node', node_ok(h1, r)),
            ('old_nodes_stay_nodes', z3.ForAll([n], z3.Implies(node_ok(h0, n), node_ok(h1, n)), patterns=[low(h1, n)])),
        ]

    def new_frame(c):
        from .contracts_graph import frame
        lo, hi = c.low.t, c.high.t
        return frame(c.h0, c.h1, c.h0.alloc, {'b_fl': lambda r: r == lo, 'b_fh': lambda r: r == hi})

    E.register(Contract(
        'BDDNonTerminalNode.__new__', 'bdd', [('cls', 'str'), ('var', 'H'), ('low', 'bnode'), ('high', 'bnode')], ret='bnode',
        requires=new_req, ensures=new_ens, frame=new_frame,
        may_write=lambda c, comp, ref: (ref == c.low.t) if comp == 'b_fl' else ((ref == c.high.t) if comp == 'b_fh' else None),
        touches=set(BT), hints=dict(common), owner='C16'), FILE)
    # =====================================================================================================
    # C17: the operations compute the right function (denotation = GHOST component b_den)
    # =====================================================================================================
    SG = z3.Const('sigma!op', hp.SetH)
    DT = set(BT) | {'rd_dom', 'rd_val', 'b_val', 'tn_has', 'tn_ref'}

    def node_state(h):
        return [('table_invariant', inv(h)), ('ghost_denotations', den_inv(h)), ('ghost_orderings', resp_inv(h)),
                ('children_are_nodes', children_ok(h)), ('terminal_table', tnodes_inv(h))]

    def nodes_kept(h0, h1):
        """constructed nodes stay as they are: fields, constants, denotations, registrations among old objects"""
        m, n = R('m'), R()
        return [('old_nodes_kept', z3.ForAll([n], z3.Implies(valid(h0, n), z3.And(
                    var(h1, n) == var(h0, n), low(h1, n) == low(h0, n), high(h1, n) == high(h0, n), term(h1, n) == term(h0, n),
                    val(h1, n) == val(h0, n), den(h1, n) == den(h0, n), resp(h1, n) == resp(h0, n), h1['b_node'][n])),
                                             patterns=[den(h1, n)])),
                ('old_nodes_stay_nodes', z3.ForAll([n], z3.Implies(node_ok(h0, n), node_ok(h1, n)), patterns=[low(h1, n)])),
                ('alloc', h1.alloc >= h0.alloc)]

    # -- BDDTerminalNode.__reset__ / __new__ (class-level dictionary Tnodes keyed by the Boolean value) ---------
    def treset_req(c):
        h, s_ = c.h0, c.self.t
        m = R('m')
        return [('table_invariant', inv(h, exclude=s_)), ('ghost_denotations', den_inv(h, exclude=s_)), ('ghost_orderings', resp_inv(h, exclude=s_)),
                ('self_valid', valid(h, s_)), ('self_is_a_terminal', term(h, s_)),
                ('self_unregistered', z3.ForAll([m], z3.Implies(z3.And(valid(h, m), m != s_), z3.And(z3.Not(fl(h, m)[s_]), z3.Not(fh(h, m)[s_])))))]

    def treset_ens(c):
        h0, h1, s_ = c.h0, c.h1, c.self.t
        n = R()
        return [('no_allocation', h1.alloc == h0.alloc),
                ('table_invariant', inv(h1)), ('ghost_denotations', den_inv(h1)), ('ghost_orderings', resp_inv(h1)),
                ('the_constant', z3.And(term(h1, s_), val(h1, s_) == c.value.t, h1['b_node'][s_])),
                ('other_nodes_kept', z3.ForAll([n], z3.Implies(z3.And(valid(h0, n), n != s_), z3.And(
                    var(h1, n) == var(h0, n), low(h1, n) == low(h0, n), high(h1, n) == high(h0, n), term(h1, n) == term(h0, n),
                    val(h1, n) == val(h0, n), den(h1, n) == den(h0, n), resp(h1, n) == resp(h0, n), h1['b_node'][n],
                    fl(h1, n) == fl(h0, n), fh(h1, n) == fh(h0, n))), patterns=[den(h1, n)]))]

    def treset_ghost(c, p):
        # GHOST code at the exit of BDDTerminalNode.__reset__: a terminal denotes its constant and respects every ordering
        h = p.heap
        s_ = c.self.t
        p.heap = h.with_(b_den=z3.Store(h['b_den'], s_, z3.K(hp.SetH, c.value.t)),
                         b_resp=z3.Store(h['b_resp'], s_, z3.K(I, z3.BoolVal(True))))

    def treset_frame(c):
        from .contracts_graph import frame
        own = lambda r: r == c.self.t       # noqa
        return frame(c.h0, c.h1, c.h0.alloc, {k_: own for k_ in ('b_val', 'b_den', 'b_resp', 'b_fl', 'b_fh')})

    E.register(Contract(
        'BDDTerminalNode.__reset__', 'bdd', [('self', 'bnode'), ('value', 'bool')], ret='none',
        requires=treset_req, ensures=treset_ens, frame=treset_frame,
        may_write=lambda c, comp, ref: (ref == c.self.t) if comp in ('b_val', 'b_fl', 'b_fh') else None,
        touches=set(BT) | {'b_val'}, hints=dict(common, ghost_exit=treset_ghost), owner='C17'), FILE)

    def tnodes_inv(h):
        b = z3.Bool('b!tn')
        t = h['tn_ref'][b]
        return z3.ForAll([b], z3.Implies(h['tn_has'][b], z3.And(valid(h, t), term(h, t), val(h, t) == b)), patterns=[h['tn_has'][b]])

    def tnew_ens(c):
        h1, r = c.h1, c.res.t
        return node_state(h1) + nodes_kept(c.h0, h1) + [
            ('the_constant_node', z3.And(valid(h1, r), term(h1, r), val(h1, r) == c.value.t))]

    def tnew_frame(c):
        from .contracts_graph import frame
        return frame(c.h0, c.h1, c.h0.alloc, {})

    E.register(Contract(
        'BDDTerminalNode.__new__', 'bdd', [('cls', 'str'), ('value', 'bool')], ret='bnode',
        requires=lambda c: node_state(c.h0), ensures=tnew_ens, frame=tnew_frame,
        touches=set(DT) | {'tn_has', 'tn_ref'}, hints=dict(common), owner='C17',
        note='value of type bool (0/1 are the same keys in Python); the class-level dictionary Tnodes is a global of the heap model'), FILE)

    VV = z3.Const('v!top', H)
    OO = z3.Int('o!any')

    def ord_ok(h, o, ins, r, cond=None):
        """orderedness transfer: if the inputs respect ordering o (and `cond`), so does the result, and no
        variable that comes before the tops of all inputs comes at or after the top of the result"""
        hyp = z3.And([resp(h, i)[o] for i in ins] + ([cond] if cond is not None else []))
        return z3.Implies(hyp, z3.And(resp(h, r)[o],
                                      z3.ForAll([VV], z3.Implies(z3.And([above(h, o, VV, i) for i in ins]), above(h, o, VV, r)))))

    def ord_ok_all(h, i, r):
        """... for every ordering"""
        return z3.ForAll([OO], ord_ok(h, OO, [i], r), patterns=[resp(h, r)[OO], resp(h, i)[OO]])

    # -- __invert__ (both classes, one specification) ---------------------------------------------------------
    def inv_cache_ok(h, d):
        k = R('k')
        return z3.ForAll([k], z3.Implies(h['rd_dom'][d][k], z3.And(
            node_ok(h, k), node_ok(h, h['rd_val'][d][k]), ord_ok_all(h, k, h['rd_val'][d][k]),
            z3.ForAll([SG], den(h, h['rd_val'][d][k])[SG] == z3.Not(den(h, k)[SG])))), patterns=[h['rd_dom'][d][k]])

    def cache_of(c):
        """(given, ref): the optional cache argument"""
        a = c.r_cache
        if a.ty == 'opt':
            return z3.Not(a.x[0]), a.x[1].t
        return z3.BoolVal(True), a.t

    def invert_req(c):
        h = c.h0
        given, d = cache_of(c)
        return node_state(h) + [('self_is_a_node', node_ok(h, c.self.t)),
                                ('cache_valid', z3.Implies(given, z3.And(d >= 0, d < h.alloc))),
                                ('cache_entries_are_complements', z3.Implies(given, inv_cache_ok(h, d)))]

    def invert_ens(c):
        h0, h1, r = c.h0, c.h1, c.res.t
        given, d = cache_of(c)
        return node_state(h1) + nodes_kept(h0, h1) + [
            ('result_is_a_node', node_ok(h1, r)),
            ('denotes_the_complement', z3.ForAll([SG], den(h1, r)[SG] == z3.Not(den(h1, c.self.t)[SG]), patterns=[den(h1, r)[SG]])),
            ('ordered_result', ord_ok_all(h1, c.self.t, r)),
            ('cache_entries_are_complements', z3.Implies(given, inv_cache_ok(h1, d)))]

    def cache_frame(cache_ref_of):
        def fr(c):
            from .contracts_graph import frame
            given, d = cache_ref_of(c)
            own = lambda r: z3.And(given, r == d)       # noqa
            anyref = lambda r: z3.BoolVal(True)         # noqa  (parent sets of existing nodes grow when a node is built on them)
            return frame(c.h0, c.h1, c.h0.alloc, {'rd_dom': own, 'rd_val': own, 'b_fl': anyref, 'b_fh': anyref})
        return fr

    def cache_may_write(cache_ref_of):
        def mw(c, comp, ref):
            given, d = cache_ref_of(c)
            if comp in ('rd_dom', 'rd_val'):
                return z3.And(given, ref == d)
            return None
        return mw

    for cls in ('BDDNonTerminalNode', 'BDDTerminalNode'):
        E.register(Contract(
            '%s.__invert__' % cls, 'bdd', [('self', 'bnode'), ('r_cache', 'opt:refdict')], ret='bnode',
            requires=(lambda c, cls=cls: invert_req(c) + [('receiver_class', term(c.h0, c.self.t) if cls == 'BDDTerminalNode'
                                                           else z3.Not(term(c.h0, c.self.t)))]) if False else
                     (lambda c, cls=cls: invert_req(c) + ([('receiver_class', (term(c.h0, c.self.t) if cls == 'BDDTerminalNode'
                                                                             else z3.Not(term(c.h0, c.self.t))))] if c.side == 'callee' else [])),
            ensures=invert_ens, frame=cache_frame(cache_of), may_write=cache_may_write(cache_of),
            touches=set(DT), hints=dict(common, dict_kind_default='refdict'), owner='C17'), FILE)

    # -- restrict: cache_restrict / compute_restrict -------------------------------------------------------------
    def upd(sg, c):
        return z3.Store(sg, c.var.t, c.value.t)

    def r_cache_ok(h, d, c):
        k = R('k')
        return z3.ForAll([k], z3.Implies(h['rd_dom'][d][k], z3.And(
            node_ok(h, k), node_ok(h, h['rd_val'][d][k]), ord_ok_all(h, k, h['rd_val'][d][k]),
            z3.ForAll([SG], den(h, h['rd_val'][d][k])[SG] == den(h, k)[upd(SG, c)]))), patterns=[h['rd_dom'][d][k]])

    def rcache_of(c):
        return z3.BoolVal(True), c.r_cache.t

    def restrict_req(c):
        h = c.h0
        return node_state(h) + [('bdd_is_a_node', node_ok(h, c.bdd.t)),
                                ('cache_entries_are_cofactors', r_cache_ok(h, c.r_cache.t, c))]

    def restrict_ens(c):
        h0, h1, r = c.h0, c.h1, c.res.t
        return node_state(h1) + nodes_kept(h0, h1) + [
            ('result_is_a_node', node_ok(h1, r)),
            ('denotes_the_cofactor', z3.ForAll([SG], den(h1, r)[SG] == den(h1, c.bdd.t)[upd(SG, c)], patterns=[den(h1, r)[SG]])),
            ('ordered_result', ord_ok_all(h1, c.bdd.t, r)),
            ('cache_entries_are_cofactors', r_cache_ok(h1, c.r_cache.t, c))]

    for fn in ('cache_restrict', 'compute_restrict'):
        E.register(Contract(
            fn, 'bdd', [('bdd', 'bnode'), ('var', 'H'), ('value', 'bool'), ('r_cache', 'refdict')], ret='bnode',
            requires=restrict_req, ensures=restrict_ens, frame=cache_frame(rcache_of), may_write=cache_may_write(rcache_of),
            touches=set(DT), hints=dict(common), owner='C17'), FILE)

    # -- BDDNode.restrict: argument normalisation (1/0 for True/False) and type test, then cache_restrict ------------
    def nrestrict_ens(c):
        h0, h1, r = c.h0, c.h1, c.res.t
        return node_state(h1) + nodes_kept(h0, h1) + [
            ('result_is_a_node', node_ok(h1, r)),
            ('denotes_the_cofactor', z3.ForAll([SG], den(h1, r)[SG] == den(h1, c.self.t)[z3.Store(SG, c.var.t, c.value.t)], patterns=[den(h1, r)[SG]])),
            ('ordered_result', ord_ok_all(h1, c.self.t, r))]

    E.register(Contract(
        'BDDNode.restrict', 'bdd', [('self', 'bnode'), ('var', 'H'), ('value', 'bool')], ret='bnode',
        requires=lambda c: node_state(c.h0) + [('self_is_a_node', node_ok(c.h0, c.self.t))], ensures=nrestrict_ens,
        raises={'TypeError': lambda c: z3.Not(ISSTR(c.var.t))},
        frame=lambda c: __import__('vf.pyvc.contracts_graph', fromlist=['frame']).frame(
            c.h0, c.h1, c.h0.alloc, {'b_fl': lambda r: z3.BoolVal(True), 'b_fh': lambda r: z3.BoolVal(True)}),
        touches=set(DT), hints=dict(common, dict_kind_default='refdict'), owner='C17',
        note='value of type bool (the integer forms 1/0 are normalised by the body; Python: True == 1)'), FILE)

    # -- apply / compute / the three decompositions ----------------------------------------------------------------
    def a_cache_ok(h, d, op, o=None):
        a, b = R('a'), R('b')
        e = h['rd_val'][d][a]
        a2 = R('a2')
        extra = []
        if o is not None:
            extra = [z3.ForAll([a, b], z3.Implies(z3.And(h['rd_dom'][d][a], h['rd_dom'][e][b]), ord_ok(h, o, [a, b], h['rd_val'][e][b])),
                               patterns=[z3.MultiPattern(h['rd_dom'][d][a], h['rd_dom'][e][b])])]
        return z3.And(extra + [
            z3.ForAll([a], z3.Implies(h['rd_dom'][d][a], z3.And(e >= 0, e < h.alloc, e != d)), patterns=[h['rd_dom'][d][a]]),
            z3.ForAll([a, a2], z3.Implies(z3.And(h['rd_dom'][d][a], h['rd_dom'][d][a2], a != a2),
                                          h['rd_val'][d][a] != h['rd_val'][d][a2])),
            z3.ForAll([a, b], z3.Implies(z3.And(h['rd_dom'][d][a], h['rd_dom'][e][b]), z3.And(
                node_ok(h, a), node_ok(h, b), node_ok(h, h['rd_val'][e][b]),
                z3.ForAll([SG], den(h, h['rd_val'][e][b])[SG] == OP(op, den(h, a)[SG], den(h, b)[SG])))),
                patterns=[z3.MultiPattern(h['rd_dom'][d][a], h['rd_dom'][e][b])])])

    def apply_req(c):
        h = c.h0
        return node_state(h) + [('A_is_a_node', node_ok(h, c.A.t)), ('B_is_a_node', node_ok(h, c.B.t)),
                                ('cache_valid', z3.And(c.r_cache.t >= 0, c.r_cache.t < h.alloc)),
                                ('cache_entries_are_results', a_cache_ok(h, c.r_cache.t, c.operator.t, c.ordering.t))]

    def apply_ens(c):
        h0, h1, r = c.h0, c.h1, c.res.t
        return node_state(h1) + nodes_kept(h0, h1) + [
            ('result_is_a_node', node_ok(h1, r)),
            ('denotes_the_combination', z3.ForAll([SG], den(h1, r)[SG] == OP(c.operator.t, den(h1, c.A.t)[SG], den(h1, c.B.t)[SG]),
                                                  patterns=[den(h1, r)[SG]])),
            ('cache_entries_are_results', a_cache_ok(h1, c.r_cache.t, c.operator.t, c.ordering.t)),
            ('ordered_result', ord_ok(h1, c.ordering.t, [c.A.t, c.B.t], r, c.k.hints.get('ord_cond', lambda c_: None)(c))),
            ('cache_rows_kept', z3.ForAll([R('a')], z3.BoolVal(True)) if False else cache_rows_kept(h0, h1, c.r_cache.t))]

    def cache_rows_kept(h0, h1, d):
        a = R('a')
        return z3.ForAll([a], z3.Implies(h0['rd_dom'][d][a], z3.And(h1['rd_dom'][d][a], h1['rd_val'][d][a] == h0['rd_val'][d][a])),
                         patterns=[h0['rd_dom'][d][a], h1['rd_dom'][d][a]])

    def acache_of(c):
        return z3.BoolVal(True), c.r_cache.t

    def apply_frame(c):
        # (nothing is claimed about OTHER dictionaries: the rows of the cache are dictionaries themselves and
        #  "is a row of this cache" is an existential the proofs do not need; C17 does not speak about them)
        from .contracts_graph import frame
        anyref = lambda r: z3.BoolVal(True)                                         # noqa
        return frame(c.h0, c.h1, c.h0.alloc, {'rd_dom': anyref, 'rd_val': anyref, 'b_fl': anyref, 'b_fh': anyref})

    def apply_may_write(c, comp, ref):
        if comp in ('rd_dom', 'rd_val'):
            return z3.BoolVal(True)
        return None

    APARAMS = [('operator', 'boolop'), ('A', 'bnode'), ('B', 'bnode'), ('ordering', 'ordering'), ('r_cache', 'refdict2')]
    for fn in ('apply', 'compute', 'BDDsons_and_BDD', 'BDD_and_BDDsons', 'BDDsons_and_BDDsons'):
        extra = []
        if fn == 'BDDsons_and_BDD':
            extra = lambda c: [('A_is_a_non_terminal', z3.Not(term(c.h0, c.A.t)))]                       # noqa
        elif fn == 'BDD_and_BDDsons':
            extra = lambda c: [('B_is_a_non_terminal', z3.Not(term(c.h0, c.B.t)))]                       # noqa
        elif fn == 'BDDsons_and_BDDsons':
            extra = lambda c: [('A_is_a_non_terminal', z3.Not(term(c.h0, c.A.t))), ('B_is_a_non_terminal', z3.Not(term(c.h0, c.B.t))),
                               ('same_variable', var(c.h0, c.A.t) == var(c.h0, c.B.t))]                 # noqa
        else:
            extra = lambda c: []                                                                          # noqa
        ord_cond = {'BDDsons_and_BDD': lambda c: above(c.h0, c.ordering.t, var(c.h0, c.A.t), c.B.t),
                    'BDD_and_BDDsons': lambda c: above(c.h0, c.ordering.t, var(c.h0, c.B.t), c.A.t)}.get(fn, lambda c: None)
        E.register(Contract(
            fn, 'bdd', APARAMS, ret='bnode',
            requires=lambda c, extra=extra: apply_req(c) + extra(c), ensures=apply_ens, frame=apply_frame, may_write=apply_may_write,
            touches=set(DT), hints=dict(common, dict_kind_default='refdict', may_raise=('RuntimeError',), ord_cond=ord_cond),
            raise_unchanged=False, owner='C17'), FILE)

    # =====================================================================================================
    # the OBDD wrapper (BDD/OBDD.py): the API-level statements of C17 for &, |, ^, ~ and apply
    # =====================================================================================================
    OFILE = 'BDD/OBDD.py'
    OT = set(DT) | {'o_root', 'o_ord'}

    def root(h, o):
        return h['o_root'][o]

    def obdd_ok(h, o):
        return z3.And(o >= 0, o < h.alloc, z3.Not(h['b_node'][o]), node_ok(h, root(h, o)))

    def oinit_ens(c):
        h1, o = c.h1, c.self.t
        return [('root_is_the_node', root(h1, o) == c.bfunct.t), ('ordering_is_the_given_one', h1['o_ord'][o] == c.ordering.t),
                ('no_allocation', h1.alloc == c.h0.alloc)]

    def oinit_frame(c):
        from .contracts_graph import frame
        o = c.self.t
        return frame(c.h0, c.h1, c.h0.alloc, {'o_root': lambda r: r == o, 'o_ord': lambda r: r == o})

    E.register(Contract(
        'OBDD.__init__', 'obdd', [('self', 'obdd'), ('bfunct', 'bnode'), ('ordering', 'ordering'), ('check_ordering', 'bool')], ret='none',
        requires=lambda c: [('self_valid', z3.And(c.self.t >= 0, c.self.t < c.h0.alloc))], ensures=oinit_ens, frame=oinit_frame,
        may_write=lambda c, comp, ref: (ref == c.self.t) if comp in ('o_root', 'o_ord') else None,
        touches={'o_root', 'o_ord'}, hints=dict(common, may_raise=('ValueError',)), raise_unchanged=False, owner='C17',
        note='the leg "bfunct is a node, ordering is an Ordering"; ValueError (the node does not respect the ordering) is allowed without saying when: '
             'respect_ordering is not modelled'), OFILE)

    def oapply_req(c):
        h = c.h0
        return node_state(h) + [('self_is_an_OBDD', obdd_ok(h, c.self.t)), ('B_is_an_OBDD', obdd_ok(h, c.B.t))]

    def combo(c, opterm):
        h1, r = c.h1, c.res.t
        return z3.ForAll([SG], den(h1, root(h1, r))[SG] == opterm(den(h1, root(c.h0, c.self.t))[SG], den(h1, root(c.h0, c.other.t))[SG]),
                         patterns=[den(h1, root(h1, r))[SG]])

    def oapply_ens(c):
        h0, h1, r = c.h0, c.h1, c.res.t
        return node_state(h1) + nodes_kept(h0, h1) + [
            ('result_is_a_new_OBDD', z3.And(r >= h0.alloc, obdd_ok(h1, r))),
            ('same_ordering', z3.And(SAMEORD(h0['o_ord'][c.self.t], h0['o_ord'][c.B.t]), h1['o_ord'][r] == h0['o_ord'][c.self.t])),
            ('denotes_the_combination', z3.ForAll([SG], den(h1, root(h1, r))[SG] == OP(c.operator.t, den(h1, root(h0, c.self.t))[SG],
                                                                                      den(h1, root(h0, c.B.t))[SG]),
                                                  patterns=[den(h1, root(h1, r))[SG]]))]

    def wrapper_frame(c):
        from .contracts_graph import frame
        anyref = lambda r: z3.BoolVal(True)         # noqa
        return frame(c.h0, c.h1, c.h0.alloc, {'b_fl': anyref, 'b_fh': anyref, 'rd_dom': anyref, 'rd_val': anyref})

    E.register(Contract(
        'OBDD.apply', 'obdd', [('self', 'obdd'), ('operator', 'boolop'), ('B', 'obdd')], ret='obdd',
        requires=oapply_req, ensures=oapply_ens, frame=wrapper_frame, touches=set(OT),
        hints=dict(common, dict_kind_default='refdict2', may_raise=('RuntimeError', 'ValueError')), raise_unchanged=False, owner='C17',
        note='a normal return implies equal orderings (different orderings: RuntimeError); RuntimeError may also come from apply'), OFILE)

    for name, opterm in (('__and__', z3.And), ('__or__', z3.Or), ('__xor__', z3.Xor)):
        def ens(c, opterm=opterm):
            h0, h1, r = c.h0, c.h1, c.res.t
            return node_state(h1) + nodes_kept(h0, h1) + [
                ('result_is_a_new_OBDD', z3.And(r >= h0.alloc, obdd_ok(h1, r), h1['o_ord'][r] == h0['o_ord'][c.self.t])),
                ('denotes_the_combination', z3.ForAll([SG], den(h1, root(h1, r))[SG] == opterm(den(h1, root(h0, c.self.t))[SG],
                                                                                             den(h1, root(h0, c.A.t))[SG]),
                                                      patterns=[den(h1, root(h1, r))[SG]]))]
        E.register(Contract(
            'OBDD.%s' % name, 'obdd', [('self', 'obdd'), ('A', 'obdd')], ret='obdd',
            requires=lambda c: node_state(c.h0) + [('self_is_an_OBDD', obdd_ok(c.h0, c.self.t)), ('A_is_an_OBDD', obdd_ok(c.h0, c.A.t))],
            ensures=ens, frame=wrapper_frame, touches=set(OT),
            hints=dict(common, may_raise=('RuntimeError', 'ValueError')), raise_unchanged=False, owner='C17'), OFILE)

    def oinv_ens(c):
        h0, h1, r = c.h0, c.h1, c.res.t
        return node_state(h1) + nodes_kept(h0, h1) + [
            ('result_is_a_new_OBDD', z3.And(r >= h0.alloc, obdd_ok(h1, r), h1['o_ord'][r] == h0['o_ord'][c.self.t])),
            ('denotes_the_complement', z3.ForAll([SG], den(h1, root(h1, r))[SG] == z3.Not(den(h1, root(h0, c.self.t))[SG]),
                                                 patterns=[den(h1, root(h1, r))[SG]]))]

    E.register(Contract(
        'OBDD.__invert__', 'obdd', [('self', 'obdd')], ret='obdd',
        requires=lambda c: node_state(c.h0) + [('self_is_an_OBDD', obdd_ok(c.h0, c.self.t))],
        ensures=oinv_ens, frame=wrapper_frame, touches=set(OT),
        hints=dict(common, may_raise=('ValueError',), dict_kind_default='refdict'), raise_unchanged=False, owner='C17'), OFILE)

    # -- descendents / variables(): the nodes reachable through low/high, and the variables they test -------------
    def nonterm(h, a):
        return z3.Not(term(h, a))        # what the code tests: isinstance(node, BDDNonTerminalNode)

    def chk(c):
        """the `checked` argument as a predicate (nothing when None)"""
        a = c.checked
        if a.ty == 'opt':
            return lambda h, x: z3.And(z3.Not(a.x[0]), h['refsets'][a.x[1].t][x])
        if a.ty == 'none':
            return lambda h, x: z3.BoolVal(False)
        return lambda h, x: h['refsets'][a.t][x]

    def children_in(h, A, ok, name='a'):
        """both children of every non-terminal member of A satisfy ok (one clause, triggered by membership)"""
        a = R(name)
        return z3.ForAll([a], z3.Implies(z3.And(A[a], nonterm(h, a)), z3.And(ok(low(h, a)), ok(high(h, a)))), patterns=[A[a]])

    def closed_from(h, root_, Z, ck):
        return z3.And(z3.Implies(z3.Not(ck(h, root_)), Z[root_]),
                      children_in(h, Z, lambda b: z3.Or(Z[b], ck(h, b))))

    def desc_skolems(c):
        c.sk['Z'] = hp.fresh('Z', hp.SetR)

    def desc_req(c):
        out = [('root_valid', valid(c.h0, c.root.t))]
        if c.checked.ty == 'opt':
            out.append(('checked_valid', z3.Implies(z3.Not(c.checked.x[0]), z3.And(c.checked.x[1].t >= 0, c.checked.x[1].t < c.h0.alloc))))
        if c.side == 'callee':
            out.append(('Z_contains_root_and_is_closed', closed_from(c.h0, c.root.t, c.sk['Z'], chk(c))))     # hypothesis of `least`
        return out

    def desc_ens(c):
        h0, h1, r = c.h0, c.h1, c.res.t
        D = h1['refsets'][r]
        ck = chk(c)
        a, b = R('a'), R('b')
        out = [('fresh', z3.And(r >= h0.alloc, r < h1.alloc)),
               ('contains_root', z3.Implies(z3.Not(ck(h0, c.root.t)), D[c.root.t])),
               ('closed_under_children', children_in(h0, D, lambda b_: z3.Or(D[b_], ck(h0, b_)))),
               ('disjoint_from_checked', z3.ForAll([a], z3.Implies(D[a], z3.Not(ck(h0, a)))))]
        if c.side == 'callee':
            out.append(('least', z3.ForAll([a], z3.Implies(D[a], c.sk['Z'][a]))))
        else:
            Z = z3.Const('Z!least', hp.SetR)
            out.append(('least', z3.ForAll([Z], z3.Implies(closed_from(h0, c.root.t, Z, ck), z3.ForAll([a], z3.Implies(D[a], Z[a]))))))
        return out

    def desc_l1(lc):
        c, h, he = lc.c, lc.h, lc.h_entry
        ck = chk(c)
        D = h['refsets'][lc.env['desc'].t]
        S = h['refsets'][lc.env['stack'].t]
        Z = c.sk['Z']
        a, b = R('a'), R('b')
        dref, sref_ = lc.env['desc'].t, lc.env['stack'].t
        from .contracts_graph import frame
        return [('own_objects', z3.And(dref >= c.h0.alloc, dref < he.alloc, sref_ >= c.h0.alloc, sref_ < he.alloc, dref != sref_)),
                # (`checked = set()` when None was passed: the local set is the empty one, and nothing is added to it)
                ('checked_is_the_argument', z3.ForAll([a], h['refsets'][lc.env['checked'].t][a] == ck(c.h0, a),
                                                      patterns=[h['refsets'][lc.env['checked'].t][a]])),
                ('checked_is_not_own', z3.And(lc.env['checked'].t != dref, lc.env['checked'].t != sref_)),
                ('desc_in_Z', z3.ForAll([a], z3.Implies(D[a], Z[a]))),
                ('stack_in_Z_or_checked', z3.ForAll([a], z3.Implies(S[a], z3.Or(Z[a], ck(c.h0, a))))),
                ('root_seen', z3.Or(D[c.root.t], ck(c.h0, c.root.t), S[c.root.t])),
                ('children_pending', children_in(c.h0, D, lambda b_: z3.Or(D[b_], ck(c.h0, b_), S[b_]))),
                ('desc_not_checked', z3.ForAll([a], z3.Implies(D[a], z3.Not(ck(c.h0, a))))),
                ('alloc', h.alloc >= he.alloc)] + frame(c.h0, h, c.h0.alloc)

    E.register(Contract(
        'descendents', 'bdd', [('root', 'bnode'), ('checked', 'opt:refset')], ret='refset',
        requires=desc_req, ensures=desc_ens, skolems=desc_skolems, loops={1: desc_l1}, loop_touches={1: {'refsets'}},
        touches={'refsets', 'b_node'}, hints=dict(common, set_kind_default='refset', list_kind='reflist'), owner='C17',
        note='the least set that contains root (unless checked) and is closed under low/high outside `checked`; termination not claimed'), FILE)

    def ndesc_ens(c):
        h0, h1, r = c.h0, c.h1, c.res.t
        D = h1['refsets'][r]
        a, b = R('a'), R('b')
        nock = lambda h, x: z3.BoolVal(False)       # noqa
        out = [('fresh', z3.And(r >= h0.alloc, r < h1.alloc)),
               ('contains_self', D[c.self.t]),
               ('closed_under_children', children_in(h0, D, lambda b_: D[b_]))]
        if c.side == 'callee':
            out.append(('least', z3.ForAll([a], z3.Implies(D[a], c.sk['Z'][a]))))
        else:
            Z = z3.Const('Z!least', hp.SetR)
            out.append(('least', z3.ForAll([Z], z3.Implies(closed_from(h0, c.self.t, Z, nock), z3.ForAll([a], z3.Implies(D[a], Z[a]))))))
        return out

    def ndesc_req(c):
        out = [('self_valid', valid(c.h0, c.self.t))]
        if c.side == 'callee':
            out.append(('Z_contains_self_and_is_closed', closed_from(c.h0, c.self.t, c.sk['Z'], lambda h, x: z3.BoolVal(False))))
        return out

    def ndesc_hint(cc, c, path):
        # instance of the callee's `least` at this function's own skolem set
        Z = cc.sk['Z']
        D = c.h1['refsets'][c.res.t]
        a = R('a')
        return [z3.Implies(closed_from(c.h0, c.root.t, Z, chk(c)), z3.ForAll([a], z3.Implies(D[a], Z[a])))]

    E.register(Contract(
        'BDDNode.descendents', 'bdd', [('self', 'bnode')], ret='refset',
        requires=ndesc_req, ensures=ndesc_ens, skolems=desc_skolems,
        touches={'refsets', 'b_node'}, hints=dict(common, set_kind_default='refset', call={'descendents': ndesc_hint}), owner='C17'), FILE)

    def vars_ens(c):
        h0, h1 = c.h0, c.h1
        Rv = h1.set_of(c.res.t)
        x = hp.fresh('x!v', H)
        n = R()
        D = c.sk.get('D')
        out = [('fresh', z3.And(c.res.t >= h0.alloc, c.res.t < h1.alloc))]
        if c.side == 'callee':
            Z = c.sk['Z']
            # every reported variable is tested by a node of EVERY closed set that contains self (so: of the least one) ...
            out.append(('only_variables_of_reachable_nodes',
                        z3.ForAll([x], z3.Implies(Rv[x], z3.Exists([n], z3.And(Z[n], nonterm(h0, n), var(h0, n) == x))))))
            # ... and every variable tested by a node of some closed set containing self (the one descendents returned) is reported
            if D is not None:
                out.append(('all_variables_of_reachable_nodes',
                            z3.And(D[c.self.t], children_in(h0, D, lambda b_: D[b_]),
                                   z3.ForAll([n], z3.Implies(z3.And(D[n], nonterm(h0, n)), Rv[var(h0, n)])))))
        return out

    def vars_req(c):
        out = [('self_valid', valid(c.h0, c.self.t))]
        if c.side == 'callee':
            out.append(('Z_contains_self_and_is_closed', closed_from(c.h0, c.self.t, c.sk['Z'], lambda h, x: z3.BoolVal(False))))
        return out

    def vars_hint(cc, c, path):
        Z = cc.sk['Z']
        D = c.h1['refsets'][c.res.t]
        cc.sk['D'] = D
        a = R('a')
        return [z3.Implies(closed_from(c.h0, c.self.t, Z, lambda h, x: z3.BoolVal(False)), z3.ForAll([a], z3.Implies(D[a], Z[a])))]

    E.register(Contract(
        'BDDNode.variables', 'bdd', [('self', 'bnode')], ret='set',
        requires=vars_req, ensures=vars_ens, skolems=desc_skolems,
        touches={'refsets', 'b_node', 'sets'}, hints=dict(common, call={'BDDNode.descendents': vars_hint}), owner='C17',
        note='the result is exactly the set of variables tested by the nodes reachable from self through low/high '
             '(sound w.r.t. every closed set containing self, complete w.r.t. the closed set descendents() returns)'), FILE)

    def orestrict_ens(c):
        h0, h1, r = c.h0, c.h1, c.res.t
        return node_state(h1) + nodes_kept(h0, h1) + [
            ('result_is_a_new_OBDD', z3.And(r >= h0.alloc, obdd_ok(h1, r), h1['o_ord'][r] == h0['o_ord'][c.self.t])),
            ('denotes_the_cofactor', z3.ForAll([SG], den(h1, root(h1, r))[SG] == den(h1, root(h0, c.self.t))[z3.Store(SG, c.var.t, c.value.t)],
                                               patterns=[den(h1, root(h1, r))[SG]]))]

    E.register(Contract(
        'OBDD.restrict', 'obdd', [('self', 'obdd'), ('var', 'H'), ('value', 'bool')], ret='obdd',
        requires=lambda c: node_state(c.h0) + [('self_is_an_OBDD', obdd_ok(c.h0, c.self.t))],
        ensures=orestrict_ens, frame=wrapper_frame, touches=set(OT),
        raises={'TypeError': lambda c: z3.Not(ISSTR(c.var.t))},
        hints=dict(common, may_raise=('ValueError',)), raise_unchanged=False, owner='C17'), OFILE)

    return ['find_isomorph', 'BDDNode.__reset__', 'BDDNonTerminalNode.__reset__', 'BDDNonTerminalNode.__new__']
