"""Sidecar contracts for the hash-consing table of pyModelChecking/BDD/BDD.py
(property C16; C17 relies on the node constructor).  Nodes are references with
fields var/low/high (terminals: value); the weak parent sets f_low/f_high are sets
of references.  Garbage collection is not modelled (TB7): the invariant ranges
over every node ever registered, which is the stronger statement.

Table invariant Inv(h):
  A. n in m.f_low  ->  n, m allocated, n non-terminal, n.low is m, n in n.high.f_high, n.low is not n.high
  B. n in m.f_high ->  ... n.high is m, n in n.low.f_low ...
  C. two registered non-terminals with the same (var, low, high) are the same object
where `registered(n)` is  n in n.low.f_low  (what __reset__ establishes)."""
import z3

from . import heap as hp
from .heap import SV, Coll, H
from .driver import Extension
from .engine import Contract, Unsupported

FILE = 'BDD/BDD.py'
I = z3.IntSort()


def R(n='n'):
    return hp.fresh(n, I)


def var(h, n):
    return h['b_var'][n]


def low(h, n):
    return h['b_low'][n]


def high(h, n):
    return h['b_high'][n]


def term(h, n):
    return h['b_term'][n]


def fl(h, m):
    return h['b_fl'][m]


def fh(h, m):
    return h['b_fh'][m]


def registered(h, n):
    return z3.And(z3.Not(term(h, n)), fl(h, low(h, n))[n])


def triple(h, n, v, lo, hi):
    return z3.And(var(h, n) == v, low(h, n) == lo, high(h, n) == hi)


def inv(h, exclude=None):
    """exclude: an allocated but not yet initialised object (between object.__new__ and __reset__)"""
    m, n = z3.Ints('m!inv n!inv')
    if exclude is None:
        ok = lambda x: z3.And(x >= 0, x < h.alloc)     # noqa
    else:
        ok = lambda x: z3.And(x >= 0, x < h.alloc, x != exclude)     # noqa
    return z3.And(
        hp.FA([m, n], z3.Implies(z3.And(ok(m), fl(h, m)[n]),
                                 z3.And(ok(n), z3.Not(term(h, n)), low(h, n) == m, ok(high(h, n)), fh(h, high(h, n))[n],
                                        low(h, n) != high(h, n))), [fl(h, m)[n]]),
        hp.FA([m, n], z3.Implies(z3.And(ok(m), fh(h, m)[n]),
                                 z3.And(ok(n), z3.Not(term(h, n)), high(h, n) == m, ok(low(h, n)), fl(h, low(h, n))[n],
                                        low(h, n) != high(h, n))), [fh(h, m)[n]]),
        z3.ForAll([m, n], z3.Implies(z3.And(ok(m), ok(n), ok(low(h, m)), registered(h, m), registered(h, n),
                                            var(h, m) == var(h, n), low(h, m) == low(h, n), high(h, m) == high(h, n)), m == n)))


class BddExt(Extension):
    def on(self, ex):
        return ex.k.hints.get('ext') == 'bdd'

    def global_name(self, E, k, name):
        if k.hints.get('ext') != 'bdd':
            return None
        if name in ('BDDNonTerminalNode', 'BDDTerminalNode', 'BDDNode'):
            return SV('bclass', None, name)
        if name == 'WeakSet':
            return SV('func', None, ('bdd', 'WeakSet'))
        if name == 'find_isomorph':
            return SV('func', None, ('contract', 'find_isomorph'))
        return None

    def attribute(self, E, ex, base, attr, path, node):
        if not self.on(ex):
            return None
        h = path.heap
        if base.ty == 'bnode':
            if attr == 'var':
                return SV('H', var(h, base.t))
            if attr == 'low':
                return SV('bnode', low(h, base.t))
            if attr == 'high':
                return SV('bnode', high(h, base.t))
            if attr == 'f_low':
                return SV('wset', None, ('b_fl', base.t))
            if attr == 'f_high':
                return SV('wset', None, ('b_fh', base.t))
            return SV('bound', None, (base, attr))
        if base.ty == 'wset':
            return SV('bound', None, (base, attr))
        return None

    def set_attribute(self, E, ex, base, attr, v, path, st):
        if not self.on(ex) or base.ty != 'bnode':
            return False
        h = path.heap
        comp = {'var': 'b_var', 'low': 'b_low', 'high': 'b_high', 'f_low': 'b_fl', 'f_high': 'b_fh'}.get(attr)
        if comp is None:
            raise Unsupported('field %s' % attr)
        if attr in ('f_low', 'f_high'):
            if v.ty != 'newwset':
                raise Unsupported('weak set field := %s' % v.ty)
            val = z3.K(I, z3.BoolVal(False))
        elif attr == 'var':
            val = v.t
        else:
            if v.ty != 'bnode':
                raise Unsupported('field %s := %s' % (attr, v.ty))
            val = v.t
        E.check_write(ex, (comp, base.t), path, st)
        path.heap = h.with_(**{comp: z3.Store(h[comp], base.t, val)})
        return True

    def isinstance(self, E, ex, a, cls, path, node):
        if not self.on(ex) or a.ty not in ('bnode',) or cls.ty != 'bclass':
            return None
        if cls.x == 'BDDNode':
            return SV('bool', z3.BoolVal(True))
        t = term(path.heap, a.t)
        return SV('bool', z3.Not(t) if cls.x == 'BDDNonTerminalNode' else t)

    def builtin_len(self, E, ex, a, n, path):
        if self.on(ex) and a.ty == 'wset':
            return SV('int', n)        # the size of a weak set is any natural number
        return None

    def call_func(self, E, ex, fn, args, kwargs, path, node):
        if fn.x[0] == 'bdd' and fn.x[1] == 'WeakSet':
            return SV('newwset')
        return None

    def method(self, E, ex, base, attr, args, kwargs, path, node):
        if not self.on(ex):
            return None
        h = path.heap
        if base.ty == 'wset' and attr == 'add' and args[0].ty == 'bnode':
            comp, ref = base.x
            E.check_write(ex, (comp, ref), path, node)
            path.heap = h.with_(**{comp: z3.Store(h[comp], ref, z3.Store(h[comp][ref], args[0].t, True))})
            return hp.NONE
        if base.ty == 'bnode' and attr == '__reset__':
            return E.call_contract(ex, 'BDDNonTerminalNode.__reset__', [base] + args, kwargs, path, node)
        return None

    def super_call(self, E, ex, cls, attr, node, path):
        if not self.on(ex):
            return None
        if attr == '__new__':
            # object.__new__(cls): a new object, registered nowhere, fields unset
            r, h = path.heap.new()
            # isinstance(node, BDDNonTerminalNode) is decided by the class: cls is that class
            path.heap = h.with_(b_term=z3.Store(h['b_term'], r, z3.BoolVal(False)))
            return SV('bnode', r)
        if attr == '__reset__' and cls == 'BDDNonTerminalNode':
            recv = ex.ev(node.func.value.args[1], path)
            return E.call_contract(ex, 'BDDNode.__reset__', [recv], {}, path, node)
        return None

    def coerce_return(self, E, ex, val, ret, path):
        if not self.on(ex):
            return None
        if ret == 'bnodeopt':
            if val.ty == 'none':
                return SV('bnodeopt', z3.IntVal(-1))
            if val.ty == 'bnode':
                return SV('bnodeopt', val.t)
        if ret == 'bnode' and val.ty == 'bnodeopt':
            ex.oblige('safety:returns_a_node', path, val.t != -1, ('safety',))
            return SV('bnode', val.t)
        return None

    def as_coll_hook(self, sv, path):
        return None


def install(E):
    ext = BddExt()
    E.ext.append(ext)
    common = {'ext': 'bdd'}
    BT = {'b_var', 'b_low', 'b_high', 'b_fl', 'b_fh', 'b_term'}

    def valid(h, n):
        return z3.And(n >= 0, n < h.alloc)

    # -- find_isomorph -------------------------------------------------------------
    def fi_req(c):
        h = c.h0
        return [('table_invariant', inv(h)), ('low_valid', valid(h, c.low.t)), ('high_valid', valid(h, c.high.t))]

    def fi_ens(c):
        h = c.h0
        n = R()
        r = c.res.t
        v, lo, hi = c.var.t, c.low.t, c.high.t
        return [
            ('found_is_the_node', z3.Implies(r != -1, z3.And(valid(h, r), registered(h, r), triple(h, r, v, lo, hi)))),
            ('none_means_absent', z3.Implies(r == -1, z3.ForAll([n], z3.Implies(z3.And(valid(h, n), registered(h, n)),
                                                                               z3.Not(triple(h, n, v, lo, hi)))))),
        ]

    def fi_l1(lc):
        c, h = lc.c, lc.c.h0
        n = R()
        v, lo, hi = c.var.t, c.low.t, c.high.t
        return [('not_among_seen', z3.ForAll([n], z3.Implies(lc.seen[n], z3.Not(z3.And(z3.Not(term(h, n)), triple(h, n, v, lo, hi)))))),
                ('alloc', lc.h.alloc >= lc.h_entry.alloc)]

    E.register(Contract(
        'find_isomorph', 'bdd', [('var', 'H'), ('low', 'bnode'), ('high', 'bnode')], ret='bnodeopt',
        requires=fi_req, ensures=fi_ens, pure=True, loops={1: fi_l1}, loop_touches={1: set()},
        hints=dict(common), owner='C16'), FILE)

    # -- BDDNode.__reset__ (base class): fresh empty parent sets ---------------------------
    def base_reset_ens(c):
        h1, s_ = c.h1, c.self.t
        n = R()
        return [('empty_parent_sets', z3.ForAll([n], z3.And(z3.Not(fl(h1, s_)[n]), z3.Not(fh(h1, s_)[n])))),
                ('no_allocation', h1.alloc == c.h0.alloc)]

    def own_frame(comps):
        def fr(c):
            s_ = c.self.t
            own = lambda r: r == s_        # noqa
            from .contracts_graph import frame
            return frame(c.h0, c.h1, c.h0.alloc, {k: own for k in comps})
        return fr

    E.register(Contract(
        'BDDNode.__reset__', 'bdd', [('self', 'bnode')], ret='none',
        ensures=base_reset_ens, frame=own_frame(('b_fl', 'b_fh')),
        may_write=lambda c, comp, ref: (ref == c.self.t) if comp in ('b_fl', 'b_fh') else None,
        touches={'b_fl', 'b_fh'}, hints=dict(common), owner='C16'), FILE)

    # -- BDDNonTerminalNode.__reset__ -------------------------------------------------------
    def reset_req(c):
        h, s_, lo, hi = c.h0, c.self.t, c.low.t, c.high.t
        m = R('m')
        return [('table_invariant', inv(h, exclude=s_)), ('self_valid', valid(h, s_)), ('low_valid', valid(h, lo)), ('high_valid', valid(h, hi)),
                ('children_differ', lo != hi), ('children_are_not_self', z3.And(lo != s_, hi != s_)),
                ('self_unregistered', z3.ForAll([m], z3.Implies(z3.And(valid(h, m), m != s_), z3.And(z3.Not(fl(h, m)[s_]), z3.Not(fh(h, m)[s_]))))),
                ('self_is_a_non_terminal', z3.Not(term(h, s_))),
                ('no_isomorph', z3.ForAll([m], z3.Implies(z3.And(valid(h, m), m != s_, registered(h, m)), z3.Not(triple(h, m, c.var.t, lo, hi)))))]

    def reset_ens(c):
        h0, h1, s_, lo, hi = c.h0, c.h1, c.self.t, c.low.t, c.high.t
        m, n = R('m'), R()
        return [
            ('no_allocation', h1.alloc == h0.alloc),
            ('table_invariant', inv(h1)),
            ('fields', z3.And(triple(h1, s_, c.var.t, lo, hi), registered(h1, s_))),
            ('registrations_low', reg_clause(c, 'b_fl', lo)),
            ('registrations_high', reg_clause(c, 'b_fh', hi)),
            ('other_fields_kept', z3.ForAll([n], z3.Implies(z3.And(valid(h0, n), n != s_),
                                                           z3.And(var(h1, n) == var(h0, n), low(h1, n) == low(h0, n),
                                                                  high(h1, n) == high(h0, n), term(h1, n) == term(h0, n))))),
        ]

    def reg_clause(c, comp, child):
        h0, h1, s_ = c.h0, c.h1, c.self.t
        m, n = R('m'), R()
        return hp.FA([m, n], z3.Implies(z3.And(m >= 0, m < h0.alloc),
                                        h1[comp][m][n] == z3.Or(z3.And(m != s_, h0[comp][m][n]), z3.And(m == child, n == s_))),
                     [h1[comp][m][n], h0[comp][m][n]])

    def reset_cuts():
        return [lambda c, path: reg_clause(c, 'b_fl', c.low.t), lambda c, path: reg_clause(c, 'b_fh', c.high.t),
                lambda c, path: fields_kept(c)]

    def fields_kept(c):
        h0, h1, s_ = c.h0, c.h1, c.self.t
        n = R()
        return hp.FA([n], z3.Implies(z3.And(n != s_, n >= 0, n < h0.alloc), z3.And(var(h1, n) == var(h0, n), low(h1, n) == low(h0, n),
                                                      high(h1, n) == high(h0, n), term(h1, n) == term(h0, n))),
                     [low(h1, n), high(h1, n), var(h1, n), term(h1, n)])

    def reset_frame(c):
        from .contracts_graph import frame
        s_, lo, hi = c.self.t, c.low.t, c.high.t
        return frame(c.h0, c.h1, c.h0.alloc, {'b_var': lambda r: r == s_, 'b_low': lambda r: r == s_, 'b_high': lambda r: r == s_,
                                              'b_fl': lambda r: z3.Or(r == s_, r == lo), 'b_fh': lambda r: z3.Or(r == s_, r == hi)})

    def reset_may_write(c, comp, ref):
        s_, lo, hi = c.self.t, c.low.t, c.high.t
        if comp in ('b_var', 'b_low', 'b_high'):
            return ref == s_
        if comp == 'b_fl':
            return z3.Or(ref == s_, ref == lo)
        if comp == 'b_fh':
            return z3.Or(ref == s_, ref == hi)
        return None

    E.register(Contract(
        'BDDNonTerminalNode.__reset__', 'bdd', [('self', 'bnode'), ('var', 'H'), ('low', 'bnode'), ('high', 'bnode')], ret='none',
        requires=reset_req, ensures=reset_ens, frame=reset_frame, may_write=reset_may_write,
        touches=set(BT), hints=dict(common, cuts={'ensures:table_invariant': reset_cuts()}), owner='C16'), FILE)

    # -- BDDNonTerminalNode.__new__ -----------------------------------------------------------
    def new_req(c):
        h = c.h0
        return [('table_invariant', inv(h)), ('low_valid', valid(h, c.low.t)), ('high_valid', valid(h, c.high.t))]

    def new_ens(c):
        h0, h1, r, lo, hi = c.h0, c.h1, c.res.t, c.low.t, c.high.t
        m, n = R('m'), R()
        return [
            ('table_invariant', inv(h1)),
            ('reduction', z3.Implies(lo == hi, r == lo)),
            ('the_node_with_the_triple', z3.Implies(lo != hi, z3.And(valid(h1, r), registered(h1, r), triple(h1, r, c.var.t, lo, hi)))),
            ('old_nodes_kept', z3.ForAll([n], z3.Implies(valid(h0, n), z3.And(var(h1, n) == var(h0, n), low(h1, n) == low(h0, n),
                                                                             high(h1, n) == high(h0, n), term(h1, n) == term(h0, n))))),
            ('old_registrations_kept', z3.ForAll([m, n], z3.Implies(z3.And(valid(h0, m), valid(h0, n)),
                                                                    z3.And(fl(h1, m)[n] == fl(h0, m)[n], fh(h1, m)[n] == fh(h0, m)[n])))),
        ]

    def new_frame(c):
        from .contracts_graph import frame
        lo, hi = c.low.t, c.high.t
        return frame(c.h0, c.h1, c.h0.alloc, {'b_fl': lambda r: r == lo, 'b_fh': lambda r: r == hi})

    E.register(Contract(
        'BDDNonTerminalNode.__new__', 'bdd', [('cls', 'str'), ('var', 'H'), ('low', 'bnode'), ('high', 'bnode')], ret='bnode',
        requires=new_req, ensures=new_ens, frame=new_frame,
        may_write=lambda c, comp, ref: (ref == c.low.t) if comp == 'b_fl' else ((ref == c.high.t) if comp == 'b_fh' else None),
        touches=set(BT), hints=dict(common), owner='C16'), FILE)
    return ['find_isomorph', 'BDDNode.__reset__', 'BDDNonTerminalNode.__reset__', 'BDDNonTerminalNode.__new__']
