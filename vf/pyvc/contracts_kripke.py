"""Sidecar contracts for pyModelChecking/kripke.py (property C14; C01/C07/C15/C19
rely on them).  Postconditions come from the statement of C14."""
import z3

from . import heap as hp
from .heap import H
from .engine import Contract
from .contracts_graph import (optrel_term, X, nx, V, sref, succ, edge, wfG, fresh_graph, optset, optrel, frame, is_source)

FILE = 'kripke.py'


def lab_dict(h, k):
    return h.field('_labels', k)


def lref(h, k, s):
    return h.dval(lab_dict(h, k))[s]


def Lab(h, k, s):
    return h.set_of(lref(h, k, s))


def S0(h, k):
    return h.set_of(h.field('S0', k))


def total(h, k):
    s = X('s')
    # (trigger on the successor set, not on V[s]: with `edges end in nodes` the trigger V[s] forms a matching
    #  loop  s -> pick(succ(s)) -> pick(succ(pick(succ(s)))) ...)
    return z3.ForAll([s], z3.Implies(V(h, k)[s], hp.nonempty(succ(h, k, s))), patterns=[succ(h, k, s)])


def wfK(h, k):
    s, t = X('s'), X('t')
    ld = lab_dict(h, k)
    return z3.And(
        wfG(h, k), total(h, k),
        ld >= 0, ld < h.alloc, ld != nx(h, k),
        h.field('S0', k) >= 0, h.field('S0', k) < h.alloc,
        z3.ForAll([s], h.ddom(ld)[s] == V(h, k)[s]),
        hp.subset(S0(h, k), V(h, k)),
        z3.ForAll([s], z3.Implies(V(h, k)[s], z3.And(lref(h, k, s) >= 0, lref(h, k, s) < h.alloc,
                                                     lref(h, k, s) != h.field('S0', k)))),
        z3.ForAll([s, t], z3.Implies(z3.And(V(h, k)[s], V(h, k)[t]),
                                     z3.And(z3.Implies(s != t, lref(h, k, s) != lref(h, k, t)),
                                            lref(h, k, s) != sref(h, k, t), sref(h, k, t) != h.field('S0', k)))))


def fresh_kripke(h0, h1, k):
    s = X('s')
    return z3.And(fresh_graph(h0, h1, k), lab_dict(h1, k) >= h0.alloc, h1.field('S0', k) >= h0.alloc,
                  z3.ForAll([s], z3.Implies(V(h1, k)[s], lref(h1, k, s) >= h0.alloc)))


def is_label_set(h, k, r):
    s = X('s')
    return z3.Exists([s], z3.And(V(h, k)[s], lref(h, k, s) == r))


def structure_kept(h0, h1, k):
    """same states, transitions and initial states; same label-set objects (their contents may grow)"""
    s, d = X('s'), X('d')
    return [('wf', wfK(h1, k)),
            ('same_states', z3.ForAll([s], V(h1, k)[s] == V(h0, k)[s])),
            ('same_transitions', hp.FA([s, d], edge(h1, k, s, d) == edge(h0, k, s, d), [])),
            ('same_label_objects', z3.ForAll([s], z3.Implies(V(h0, k)[s], lref(h1, k, s) == lref(h0, k, s))))]


def labels_frame_of(h0, h1, k):
    """everything allocated before is unchanged except the CONTENTS of the label sets of structure k"""
    return frame(h0, h1, h0.alloc, {'sets': lambda r: is_label_set(h0, k, r)})


def anyview(sv, h):
    """(isdict, dom, val, ok) of the labelling argument in its current form"""
    if sv.ty == 'opt':
        isnone, inner = sv.x
        d = inner.x
        return (z3.Or(isnone, d['isdict']), hp.PSet(lambda k_: z3.And(z3.Not(isnone), d['dom'][k_])), d['val'],
                hp.PSet(lambda k_: z3.Or(isnone, d['ok'][k_])))
    if sv.ty == 'anydict':
        d = sv.x
        return d['isdict'], d['dom'], d['val'], d['ok']
    if sv.ty == 'dict':
        return (z3.BoolVal(True), h.ddom(sv.t), hp.PSet(lambda k_: h.set_of(h.dval(sv.t)[k_])),
                hp.PSet(lambda k_: z3.BoolVal(True)))
    if sv.ty == 'none':
        return (z3.BoolVal(True), hp.PSet(lambda k_: z3.BoolVal(False)), hp.PSet(lambda k_: hp.empty_set()),
                hp.PSet(lambda k_: z3.BoolVal(True)))
    raise ValueError(sv.ty)


def install(E):
    def reg(k):
        E.register(k, FILE)

    # -- __init__ ---------------------------------------------------------------
    def vstar(c):
        Vs, Rs = optset(c.S), optrel(c.R)

        Rt = optrel_term(c.R)
        return hp.PSet(lambda s: z3.Or(Vs[s], hp.isend(Rt, s)))

    def init_raise(c):
        s, d = X('s'), X('d')
        Rs = optrel(c.R)
        VS = vstar(c)
        isdict, dom, val, ok = anyview(c.L, c.h0)
        not_total = z3.Exists([s], z3.And(VS[s], z3.Not(z3.Exists([d], Rs[s, d]))))
        bad_value = z3.Exists([s], z3.And(VS[s], dom[s], z3.Not(ok[s])))
        return z3.Or(not_total, z3.Not(isdict), bad_value)

    def init_ens(c):
        s, d, a = X('s'), X('d'), X('a')
        h1, k = c.h1, c.self.t
        VS = vstar(c)
        Rs = optrel(c.R)
        isdict, dom, val, ok = anyview(c.L, c.h0)
        S0s = optset(c.S0)
        return [
            ('states_only_given', z3.ForAll([s], z3.Implies(V(h1, k)[s], VS[s]))),
            ('states_all_given', z3.ForAll([s], z3.Implies(optset(c.S)[s], V(h1, k)[s]))),
            ('states_all_ends', z3.ForAll([s, d], z3.Implies(Rs[s, d], z3.And(V(h1, k)[s], V(h1, k)[d])))),
            ('transitions', hp.FA([s, d], edge(h1, k, s, d) == Rs[s, d], [succ(h1, k, s)[d], Rs[s, d]])),
            ('initial_states', z3.ForAll([s], S0(h1, k)[s] == z3.And(VS[s], S0s[s]))),
            ('labels', hp.FA([s, a], z3.Implies(VS[s], Lab(h1, k, s)[a] == z3.And(dom[s], val[s][a])), [Lab(h1, k, s)[a]])),
            ('wf', wfK(h1, k)),
            ('fresh', fresh_kripke(c.h0, h1, k)),
        ]

    def init_frame(c):
        k = c.self.t
        own = lambda r: r == k          # noqa
        return frame(c.h0, c.h1, c.h0.alloc, {'fld__next': own, 'fld__labels': own, 'fld_S0': own})

    def init_may_write(c, comp, ref):
        if comp in ('fld__next', 'fld__labels', 'fld_S0'):
            return ref == c.self.t
        return None

    def init_l1(lc):
        c, h, k = lc.c, lc.h, lc.c.self.t
        he = lc.h_entry
        s, t, a = X('s'), X('t'), X('a')
        ld = lab_dict(h, k)
        isdict, dom, val, ok = anyview(lc.env['L'], h)
        own = lambda r: r == ld         # noqa
        return [
            ('labels_dict_is_own', z3.And(ld == lab_dict(he, k), ld >= c.h0.alloc, ld < he.alloc, ld != nx(he, k))),
            ('fields', z3.And(nx(h, k) == nx(he, k), h.field('S0', k) == he.field('S0', k))),
            ('dom_is_seen', z3.ForAll([s], h.ddom(ld)[s] == lc.seen[s])),
            ('copied', z3.ForAll([s, a], z3.Implies(lc.seen[s], Lab(h, k, s)[a] == z3.And(dom[s], val[s][a])))),
            ('label_sets_fresh', z3.ForAll([s], z3.Implies(lc.seen[s], z3.And(lref(h, k, s) >= he.alloc, lref(h, k, s) < h.alloc)))),
            ('label_sets_distinct', z3.ForAll([s, t], z3.Implies(z3.And(lc.seen[s], lc.seen[t], s != t), lref(h, k, s) != lref(h, k, t)))),
            ('is_dict', isdict),
            ('values_iterable', z3.ForAll([s], z3.Implies(z3.And(lc.seen[s], dom[s]), ok[s]))),
            ('alloc', h.alloc >= he.alloc),
            # facts established before the loop, restated on the current heap
            ('states_only_given', z3.ForAll([s], z3.Implies(V(h, k)[s], vstar(c)[s]))),
            ('states_all_given', z3.ForAll([s], z3.Implies(optset(c.S)[s], V(h, k)[s]))),
            ('states_all_ends', z3.ForAll([s, t], z3.Implies(optrel(c.R)[s, t], z3.And(V(h, k)[s], V(h, k)[t])))),
            ('transitions_are_given', hp.FA([s, t], edge(h, k, s, t) == optrel(c.R)[s, t], [succ(h, k, s)[t]])),
            ('total', total(h, k)),
            ('graph_wf', wfG(h, k)),
            ('initial_states', hp.FA([s], S0(h, k)[s] == z3.And(vstar(c)[s], optset(c.S0)[s]), [S0(h, k)[s]])),
            ('S0_fresh', z3.And(h.field('S0', k) >= c.h0.alloc, h.field('S0', k) < he.alloc)),
            ('graph_fresh', fresh_graph(c.h0, h, k)),
        ] + frame(he, h, he.alloc, {'dd': own, 'dv': own})

    def pots_are_counterexamples(c, path):
        # every element of `pots` is a state without outgoing transition
        x, d = X('x'), X('d')
        pots = path.heap.set_of(path.env['pots'].t)
        w = path.ghosts['w:pots']         # the named element of `pots` when it is non-empty
        Rs = optrel(c.R)
        lemma = z3.ForAll([x], z3.Implies(pots[x], z3.And(vstar(c)[x], z3.Not(z3.Exists([d], Rs[x, d])))))
        return lemma, [w]

    def pots_witness(c, path):
        return path.heap.set_of(path.env['pots'].t)[path.ghosts['w:pots']]

    reg(Contract(
        'Kripke.__init__', 'kripke',
        [('self', 'kripke'), ('S', 'opt:iterH'), ('S0', 'opt:iterH'), ('R', 'opt:iterPair'), ('L', 'opt:anydict')], ret='none',
        requires=lambda c: [('self_valid', z3.And(c.self.t >= 0, c.self.t < c.h0.alloc))],
        ensures=init_ens, frame=init_frame, may_write=init_may_write,
        raises={'RuntimeError': init_raise}, raise_unchanged=False,
        loops={1: init_l1}, touches={'dd', 'dv', 'sets', 'fld__next', 'fld__labels', 'fld_S0'}, loop_touches={1: {'dd', 'dv', 'sets'}}, owner='C14',
        hints={'cuts': {'raises:RuntimeError:only_if:L+22': [pots_are_counterexamples, pots_witness]}}))

    # -- labels -----------------------------------------------------------------
    def labels_ens(c):
        s, a = X('s'), X('a')
        h0, k, st = c.h0, c.self.t, c.state.t
        R = c.h1.set_of(c.res.t)
        return [
            ('alias_of_label_set', z3.Implies(st != hp.NONE_H, c.res.t == lref(h0, k, st))),
            ('union_of_all_labels', z3.Implies(st == hp.NONE_H, z3.And(
                c.res.t >= h0.alloc,
                z3.ForAll([a], R[a] == z3.Exists([s], z3.And(V(h0, k)[s], Lab(h0, k, s)[a])))))),
        ]

    def labels_l1(lc):
        c, h, k = lc.c, lc.h, lc.c.self.t
        s, a = X('s'), X('a')
        AP = h.set_of(lc.env['AP'].t)
        return [
            ('union_so_far', z3.ForAll([a], AP[a] == z3.Exists([s], z3.And(lc.seen[s], Lab(c.h0, k, s)[a])))),
            ('alloc', h.alloc >= lc.h_entry.alloc),
        ] + frame(c.h0, h, c.h0.alloc)

    reg(Contract(
        'Kripke.labels', 'kripke', [('self', 'kripke'), ('state', 'Hopt')], ret='set',
        requires=lambda c: [('wf', wfK(c.h0, c.self.t))],
        ensures=labels_ens, loops={1: labels_l1},
        raises={'RuntimeError': lambda c: z3.And(c.state.t != hp.NONE_H, z3.Not(V(c.h0, c.self.t)[c.state.t]))},
        touches={'sets'}, loop_touches={1: {'sets'}}, owner='C14'))

    # -- states / next / transitions ------------------------------------------------
    reg(Contract(
        'Kripke.states', 'kripke', [('self', 'kripke')], ret='keys',
        ensures=lambda c: [('alias_of_keys', c.res.t == nx(c.h0, c.self.t))], pure=True, owner='C14'))

    reg(Contract(
        'Kripke.next', 'kripke', [('self', 'kripke'), ('src', 'H')], ret='set',
        ensures=lambda c: [('alias_of_successors', c.res.t == sref(c.h0, c.self.t, c.src.t))],
        raises={'RuntimeError': lambda c: z3.Not(V(c.h0, c.self.t)[c.src.t])}, pure=True, owner='C14'))

    def ti_ens(c):
        s, d = X('s'), X('d')
        return [('exactly_transitions', hp.FA([s, d], c.res.x.mem[s, d] == edge(c.h0, c.self.t, s, d),
                                              [c.res.x.mem[s, d], succ(c.h0, c.self.t, s)[d]]))]

    reg(Contract(
        'Kripke.transitions_iter', 'kripke', [('self', 'kripke')], ret='coll:pair',
        requires=lambda c: [('wf', wfG(c.h0, c.self.t))], ensures=ti_ens, pure=True, owner='C14'))

    def tr_ens(c):
        s, d = X('s'), X('d')
        return [('list_of_transitions', hp.FA([s, d], c.h1.rel_of(c.res.t)[s, d] == edge(c.h0, c.self.t, s, d),
                                             [c.h1.rel_of(c.res.t)[s, d], succ(c.h0, c.self.t, s)[d]])),
                ('fresh', c.res.t >= c.h0.alloc)]

    reg(Contract(
        'Kripke.transitions', 'kripke', [('self', 'kripke')], ret='pairlist',
        requires=lambda c: [('wf', wfG(c.h0, c.self.t))], ensures=tr_ens, touches={'rels'}, owner='C14'))

    # -- clone ---------------------------------------------------------------------
    def same_structure(h0, k0, h1, k1, keep=None):
        s, d, a = X('s'), X('d'), X('a')
        inK = (lambda x: z3.BoolVal(True)) if keep is None else (lambda x: keep[x])
        return [
            ('states', z3.ForAll([s], V(h1, k1)[s] == z3.And(V(h0, k0)[s], inK(s)))),
            ('transitions', hp.FA([s, d], edge(h1, k1, s, d) == z3.And(edge(h0, k0, s, d), inK(s), inK(d)),
                                 [succ(h1, k1, s)[d], succ(h0, k0, s)[d]])),
            ('initial_states', z3.ForAll([s], S0(h1, k1)[s] == z3.And(S0(h0, k0)[s], inK(s)))),
            ('labels', hp.FA([s, a], z3.Implies(z3.And(V(h0, k0)[s], inK(s)), Lab(h1, k1, s)[a] == Lab(h0, k0, s)[a]),
                            [Lab(h1, k1, s)[a], Lab(h0, k0, s)[a]])),
        ]

    def clone_ens(c):
        return same_structure(c.h0, c.self.t, c.h1, c.res.t) + [
            ('wf', wfK(c.h1, c.res.t)),
            ('fresh', z3.And(c.res.t >= c.h0.alloc, c.res.t < c.h1.alloc, fresh_kripke(c.h0, c.h1, c.res.t)))]

    def clone_l1(lc):
        c, h, k = lc.c, lc.h, lc.c.self.t
        s, t, a = X('s'), X('t'), X('a')
        Lr = lc.env['L'].t
        return [
            ('L_is_new', z3.And(Lr >= c.h0.alloc, Lr < h.alloc)),
            ('dom_is_seen', z3.ForAll([s], h.ddom(Lr)[s] == lc.seen[s])),
            ('copied', z3.ForAll([s, a], z3.Implies(lc.seen[s], h.set_of(h.dval(Lr)[s])[a] == Lab(c.h0, k, s)[a]))),
            ('copies_fresh', z3.ForAll([s], z3.Implies(lc.seen[s], z3.And(h.dval(Lr)[s] >= c.h0.alloc, h.dval(Lr)[s] < h.alloc)))),
            ('alloc', h.alloc >= lc.h_entry.alloc),
        ] + frame(c.h0, h, c.h0.alloc)

    reg(Contract(
        'Kripke.clone', 'kripke', [('self', 'kripke')], ret='kripke',
        requires=lambda c: [('wf', wfK(c.h0, c.self.t))],
        ensures=clone_ens, loops={1: clone_l1}, touches={'dd', 'dv', 'sets', 'rels', 'fld__next', 'fld__labels', 'fld_S0'}, loop_touches={1: {'dd', 'dv', 'sets'}}, owner='C14'))

    # -- get_substructure -------------------------------------------------------------
    def sub_raise(c):
        s, d = X('s'), X('d')
        K = c.V.x.mem
        k = c.self.t
        return z3.Exists([s], z3.And(K[s], V(c.h0, k)[s],
                                     z3.Not(z3.Exists([d], z3.And(edge(c.h0, k, s, d), K[d])))))

    def sub_ens(c):
        return same_structure(c.h0, c.self.t, c.h1, c.res.t, keep=c.V.x.mem) + [
            ('wf', wfK(c.h1, c.res.t)),
            ('fresh', z3.And(c.res.t >= c.h0.alloc, c.res.t < c.h1.alloc, fresh_kripke(c.h0, c.h1, c.res.t)))]

    def sub_dead_ends_cut(c, path):
        # every state that makes the constructor call fail is a dead end of the induced relation
        s, d = X('s'), X('d')
        h = path.heap
        Sset = h.set_of(path.env['S'].t)
        Erel = h.rel_of(path.env['E'].t)
        K = c.V.x.mem
        k = c.self.t
        return z3.ForAll([s], z3.Implies(
            z3.And(z3.Or(Sset[s], hp.isend(Erel, s)), z3.Not(z3.Exists([d], Erel[s, d]))),
            z3.And(K[s], V(c.h0, k)[s], z3.Not(z3.Exists([d], z3.And(edge(c.h0, k, s, d), K[d]))))))

    def sub_cut_edges(c, path):
        # every induced transition is in the list E handed to the constructor
        s, d = X('s'), X('d')
        Erel = path.heap.rel_of(path.env['E'].t)
        K, k = c.V.x.mem, c.self.t
        return hp.FA([s, d], z3.Implies(z3.And(edge(c.h0, k, s, d), K[s], K[d]), Erel[s, d]), [succ(c.h0, k, s)[d]])

    def sub_cut_states(c, path):
        # every state handed to the constructor (explicitly or as an end point of E) is a retained state
        s = X('s')
        h = path.heap
        Sset, Erel = h.set_of(path.env['S'].t), h.rel_of(path.env['E'].t)
        K, k = c.V.x.mem, c.self.t
        return hp.FA([s], z3.Implies(z3.Or(Sset[s], hp.isend(Erel, s)), z3.And(K[s], V(c.h0, k)[s])),
                     [Sset[s], hp.isend(Erel, s)])

    def sub_cut_retained_are_given(c, path):
        s = X('s')
        Sset = path.heap.set_of(path.env['S'].t)
        K, k = c.V.x.mem, c.self.t
        return hp.FA([s], z3.Implies(z3.And(K[s], V(c.h0, k)[s]), Sset[s]), [K[s], Sset[s]])

    def sub_cut_E_is_induced(c, path):
        s, d = X('s'), X('d')
        Erel = path.heap.rel_of(path.env['E'].t)
        K, k = c.V.x.mem, c.self.t
        return hp.FA([s, d], z3.Implies(Erel[s, d], z3.And(edge(c.h0, k, s, d), K[s], K[d])), [Erel[s, d]])

    reg(Contract(
        'Kripke.get_substructure', 'kripke', [('self', 'kripke'), ('V', 'setlike')], ret='kripke',
        requires=lambda c: [('wf', wfK(c.h0, c.self.t))],
        ensures=sub_ens, raises={'RuntimeError': sub_raise},
        hints={'slice_noraise': r'(raises:RuntimeError:if:ret\d+:cut[12]$|^ensures:(transitions|initial_states|states|labels):ret\d+$)',
               'cuts': {'raises:RuntimeError:only_if': [sub_cut_edges, sub_cut_states],
                        'raises:RuntimeError:if': [sub_cut_retained_are_given, sub_cut_E_is_induced]}},
 touches={'dd', 'dv', 'sets', 'rels', 'fld__next', 'fld__labels', 'fld_S0'}, owner='C14'))

    # -- fairness (C15: "no call raises an internal error or modifies K"; C07 with fairness) ---------------
    # FRAME and SAFETY only: what get_fair_states returns is wrong on the pinned tree (KF-C15-1) and is
    # decided by the bounded check against its defect model; nothing functional is stated here.
    def fairsets_valid(c):
        r = z3.Int('r!fs')
        return ('constraints_are_sets', z3.ForAll([r], z3.Implies(c.F.x.mem[r], z3.And(r >= 0, r < c.h0.alloc))))

    def isfair_req(c):
        x = X()
        S = c.h0.set_of(c.scc.t)
        return [('wf', wfG(c.h0, c.self.t)), fairsets_valid(c),
                ('component_valid', z3.And(c.scc.t >= 0, c.scc.t < c.h0.alloc)),
                ('component_nonempty', hp.nonempty(S)),
                ('component_within_states', z3.ForAll([x], z3.Implies(S[x], V(c.h0, c.self.t)[x])))]

    def isfair_l1(lc):
        c, h = lc.c, lc.h
        return [('alloc', h.alloc >= lc.h_entry.alloc)] + frame(c.h0, h, c.h0.alloc)

    reg(Contract(
        'Kripke.get_fair_states.<locals>.is_a_fair_SCC', 'kripke', [('self', 'kripke'), ('scc', 'dlist'), ('F', 'iterRefSets')], ret='bool',
        requires=isfair_req, ensures=lambda c: [], loops={1: isfair_l1}, loop_touches={1: {'sets'}}, touches={'sets'}, owner='C15',
        note='frame and safety only'))

    def gfs_scc_hint(cc, c, path):
        cc.sk['scc'] = c
        return []

    def gfs_ens(c):
        x = X()
        R = c.h1.set_of(c.res.t)
        return [('only_states', z3.ForAll([x], z3.Implies(R[x], V(c.h0, c.self.t)[x]))),
                ('fresh', z3.And(c.res.t >= c.h0.alloc, c.res.t < c.h1.alloc))]

    def gfs_l1(lc):
        c, h, he = lc.c, lc.h, lc.h_entry
        scc = c.sk['scc']
        hS, yR = scc.h1, scc.yR
        A = lc.env['F_set'].t
        x = X()
        r = z3.Int('r!gf')
        return [('acc_is_new', z3.And(A >= c.h0.alloc, A < he.alloc, z3.Not(yR[A]))),
                ('acc_within_states', z3.ForAll([x], z3.Implies(h.set_of(A)[x], V(c.h0, c.self.t)[x]))),
                ('components_unchanged', z3.ForAll([r], z3.Implies(yR[r], h.set_of(r) == hS.set_of(r)))),
                ('alloc', h.alloc >= he.alloc)] \
            + frame(c.h0, h, c.h0.alloc) \
            + [('since_loop:' + n_, f_) for n_, f_ in frame(he, h, he.alloc, {'sets': lambda q: q == A})]

    reg(Contract(
        'Kripke.get_fair_states', 'kripke', [('self', 'kripke'), ('F', 'iterRefSets')], ret='set',
        requires=lambda c: [('wf', wfK(c.h0, c.self.t)), fairsets_valid(c)], ensures=gfs_ens,
        loops={1: gfs_l1}, loop_touches={1: {'sets'}}, touches={'sets', 'dd', 'dv', 'fld__next', 'rels'},
        hints={'call': {'compute_SCCs': gfs_scc_hint}}, owner='C15',
        note='frame and safety only (result: a new set of states); the set itself is wrong on the pinned tree, KF-C15-1'))

    def fresh_label_clause(c):
        s_ = X('s')
        return z3.ForAll([s_], z3.Implies(V(c.h0, c.self.t)[s_], z3.Not(Lab(c.h0, c.self.t, s_)[c.res.t])))

    def lfs_frame(c):
        return labels_frame_of(c.h0, c.h1, c.self.t)

    def lfs_may_write(c, comp, ref):
        if comp == 'sets':
            return is_label_set(c.h0, c.self.t, ref)
        return None

    def lfs_l1(lc):
        # while f_label in labels: ...
        c, h, he = lc.c, lc.h, lc.h_entry
        s_, a_ = X('s'), X('a')
        Ls = h.set_of(lc.env['labels'].t)
        return [('alloc', h.alloc >= he.alloc),
                ('labels_are_all_labels', z3.ForAll([a_], Ls[a_] == z3.Exists([s_], z3.And(V(c.h0, c.self.t)[s_], Lab(c.h0, c.self.t, s_)[a_])))),
                ('labels_set_is_new', lc.env['labels'].t >= c.h0.alloc)] + structure_kept(c.h0, h, c.self.t) \
            + [('since_entry:' + n_, f_) for n_, f_ in labels_frame_of(c.h0, h, c.self.t)]

    def lfs_l2(lc):
        # for s in self.get_fair_states(F): self._labels[s].add(f_label)
        c, h, he = lc.c, lc.h, lc.h_entry
        k = c.self.t
        s = X('s')
        return [('iterated_set_is_new', z3.And(lc.coll.src[1] >= c.h0.alloc, lc.coll.src[1] < he.alloc)),
                ('iterated_are_states', z3.ForAll([s], z3.Implies(lc.coll.mem[s], V(c.h0, k)[s]))),
                ('alloc', h.alloc >= he.alloc)] + structure_kept(c.h0, h, k) \
            + [('since_entry:' + n_, f_) for n_, f_ in labels_frame_of(c.h0, h, k)] \
            + [('since_loop:' + n_, f_) for n_, f_ in frame(he, h, he.alloc, {'sets': lambda r: is_label_set(c.h0, k, r)})]

    reg(Contract(
        'Kripke.label_fair_states', 'kripke', [('self', 'kripke'), ('F', 'iterRefSets')], ret='H',
        requires=lambda c: [('wf', wfK(c.h0, c.self.t)), ('no_None_state', z3.Not(V(c.h0, c.self.t)[hp.NONE_H])), fairsets_valid(c)],
        ensures=lambda c: structure_kept(c.h0, c.h1, c.self.t) + [
            # "a new atomic proposition": no state of the structure carried it before the call
            ('not_a_label_of_the_structure', z3.ForAll([X('s')], z3.Implies(V(c.h0, c.self.t)[X('s')], z3.BoolVal(True))) if False else
             fresh_label_clause(c))], frame=lfs_frame, may_write=lfs_may_write,
        loops={1: lfs_l1, 2: lfs_l2}, loop_touches={1: set(), 2: {'sets'}}, touches={'sets', 'dd', 'dv', 'fld__next', 'rels'},
        hints={'format_is_H': True}, owner='C15',
        note='frame and safety only: writes go to the CONTENTS of the label sets of self; termination of the renaming loop not claimed'))
