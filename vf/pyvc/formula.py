"""Formula objects in the VC generator (DESIGN.md 2.4, simplified): a formula is
a value of the uninterpreted sort F, identified by its printed form (that is how
the package compares and hashes formulas; injectivity of printing is C09's
bounded claim and an explicit assumption here).  Structure is read through
uninterpreted functions; isinstance tests are resolved through the LIVE class
table of the package imported from $VERIF_REPO, so a changed base-class list
changes the VCs."""
import z3

from . import heap as hp
from .heap import SV, Coll, H, F
from .driver import Extension
from .engine import Unsupported

I = z3.IntSort()
B = z3.BoolSort()

TAGS = ['Not', 'Or', 'And', 'Imply', 'Bool', 'AtomicProposition', 'A', 'E', 'X', 'F', 'G', 'U', 'R']
TAG = {n: i for i, n in enumerate(TAGS)}
ARITY1 = ('Not', 'A', 'E', 'X', 'F', 'G')
ARITY2 = ('Imply', 'U', 'R')

tag = z3.Function('tag', F, I)
kid0 = z3.Function('kid0', F, F)
kid1 = z3.Function('kid1', F, F)
iskid = z3.Function('iskid', F, F, B)
apname = z3.Function('apname', F, H)
boolval = z3.Function('boolval', F, B)
mkbool = z3.Function('mkbool', B, F)
restr = z3.Function('restr', F, F)       # result of get_equivalent_restricted_formula (contract: C05)
wfS = z3.Function('wfS', F, B)           # documented CTL state formula
wfP = z3.Function('wfP', F, B)           # documented CTL path formula
sat = z3.Function('sat', F, hp.SetH)     # satisfaction set in THE structure of the verification context
or_w = z3.Function('or_witness', F, H, F)
ex_w = z3.Function('ex_witness', F, H, H)
eg_w = z3.Function('eg_witness', F, H, H)
FML = z3.Function('formula_object_of', H, F)      # the formula object a parser's transformer returned (a value) - C09/C10
nonfair = z3.Function('non_fair_formula', F, H, F)    # result of get_equivalent_non_fair_formula(label)


def T(name):
    return z3.IntVal(TAG[name])


def is_tag(f, *names):
    return z3.Or([tag(f) == T(n) for n in names]) if len(names) > 1 else tag(f) == T(names[0])


def syntax_axioms():
    f, c = z3.Const('f!sx', F), z3.Const('c!sx', F)
    b = z3.Const('b!sx', B)
    ax = [
        z3.ForAll([f], z3.And(tag(f) >= 0, tag(f) < len(TAGS)), patterns=[tag(f)]),
        z3.ForAll([b], z3.And(tag(mkbool(b)) == T('Bool'), boolval(mkbool(b)) == b), patterns=[mkbool(b)]),
        z3.ForAll([f], z3.Implies(tag(f) == T('Bool'), f == mkbool(boolval(f))), patterns=[boolval(f), tag(f)]),
        # well-formedness unfolds one level (documented CTL grammar, logics.rst)
        z3.ForAll([f], z3.Implies(wfS(f), is_tag(f, 'Not', 'Or', 'And', 'Imply', 'Bool', 'AtomicProposition', 'A', 'E')),
                  patterns=[wfS(f)]),
        z3.ForAll([f], z3.Implies(z3.And(wfS(f), is_tag(f, 'Not', 'Imply')), wfS(kid0(f))), patterns=[wfS(f)]),
        z3.ForAll([f], z3.Implies(z3.And(wfS(f), is_tag(f, 'Imply')), wfS(kid1(f))), patterns=[wfS(f)]),
        z3.ForAll([f, c], z3.Implies(z3.And(wfS(f), is_tag(f, 'Or', 'And'), iskid(f, c)), wfS(c)), patterns=[z3.MultiPattern(wfS(f), iskid(f, c))]),
        z3.ForAll([f], z3.Implies(z3.And(wfS(f), is_tag(f, 'A', 'E')), wfP(kid0(f))), patterns=[wfS(f)]),
        z3.ForAll([f], z3.Implies(wfP(f), z3.And(is_tag(f, 'X', 'F', 'G', 'U', 'R'), wfS(kid0(f)))), patterns=[wfP(f)]),
        z3.ForAll([f], z3.Implies(z3.And(wfP(f), is_tag(f, 'U', 'R')), wfS(kid1(f))), patterns=[wfP(f)]),
        # C05 contract of the rewriting (assumed here, owned by C05)
        z3.ForAll([f], z3.Implies(wfS(f), wfS(restr(f))), patterns=[restr(f)]),
    ]
    return ax


def semantic_axioms(V, edge, Lab):
    """The documented CTL semantics of the restricted operators in fixpoint form
    (CGP00 ch. 4; trusted base TB1-TB3 of DESIGN.md), for the structure whose
    view is (V, edge, Lab).  Existentials are skolemised; the two fixpoint
    extremality principles are second-order and are stated for an arbitrary set Z
    (instantiated by hints)."""
    f, c = z3.Const('f!sm', F), z3.Const('c!sm', F)
    s, d = z3.Const('s!sm', H), z3.Const('d!sm', H)
    Z = z3.Const('Z!sm', hp.SetH)
    S = sat
    p = kid0(f)
    ax = [
        z3.ForAll([f, s], z3.Implies(S(f)[s], V[s]), patterns=[S(f)[s]]),
        z3.ForAll([f, s], z3.Implies(z3.And(wfS(f), is_tag(f, 'Not')), S(f)[s] == z3.And(V[s], z3.Not(S(kid0(f))[s]))),
                  patterns=[S(f)[s]]),
        z3.ForAll([f, s], z3.Implies(z3.And(wfS(f), is_tag(f, 'Bool')), S(f)[s] == z3.And(V[s], boolval(f))), patterns=[S(f)[s]]),
        z3.ForAll([f, s], z3.Implies(z3.And(wfS(f), is_tag(f, 'AtomicProposition')), S(f)[s] == z3.And(V[s], Lab(s)[apname(f)])),
                  patterns=[S(f)[s]]),
        # Or: union over the operands
        z3.ForAll([f, s], z3.Implies(z3.And(wfS(f), is_tag(f, 'Or'), S(f)[s]),
                                     z3.And(iskid(f, or_w(f, s)), S(or_w(f, s))[s])), patterns=[S(f)[s]]),
        z3.ForAll([f, c, s], z3.Implies(z3.And(wfS(f), is_tag(f, 'Or'), iskid(f, c), S(c)[s]), S(f)[s]),
                  patterns=[z3.MultiPattern(iskid(f, c), S(c)[s])]),
        # E X phi
        z3.ForAll([f, s], z3.Implies(z3.And(wfS(f), is_tag(f, 'E'), is_tag(p, 'X'), S(f)[s]),
                                     z3.And(edge(s, ex_w(f, s)), S(kid0(p))[ex_w(f, s)])), patterns=[S(f)[s]]),
        z3.ForAll([f, s, d], z3.Implies(z3.And(wfS(f), is_tag(f, 'E'), is_tag(p, 'X'), edge(s, d), S(kid0(p))[d]), S(f)[s]),
                  patterns=[z3.MultiPattern(S(f)[s], S(kid0(p))[d])]),
        # E (phi U psi): least fixpoint of  Z = psi | (phi & pre Z)
        z3.ForAll([f, s], z3.Implies(z3.And(wfS(f), is_tag(f, 'E'), is_tag(p, 'U'), S(kid1(p))[s]), S(f)[s]),
                  patterns=[S(kid1(p))[s]]),
        z3.ForAll([f, s, d], z3.Implies(z3.And(wfS(f), is_tag(f, 'E'), is_tag(p, 'U'), S(kid0(p))[s], edge(s, d), S(f)[d]), S(f)[s]),
                  patterns=[z3.MultiPattern(S(kid0(p))[s], S(f)[d])]),
        # E G phi: greatest fixpoint of  Z = phi & pre Z
        z3.ForAll([f, s], z3.Implies(z3.And(wfS(f), is_tag(f, 'E'), is_tag(p, 'G'), S(f)[s]),
                                     z3.And(S(kid0(p))[s], edge(s, eg_w(f, s)), S(f)[eg_w(f, s)])), patterns=[S(f)[s]]),
        # everything else: the rewritten formula has the same meaning (C05)
        z3.ForAll([f], z3.Implies(wfS(f), S(restr(f)) == S(f)), patterns=[restr(f)]),
    ]
    return ax


def eu_least(f, Zset, V, edge):
    """instance of the least-fixpoint principle of E(phi U psi) at the set Z"""
    s, d = z3.Const('s!lf', H), z3.Const('d!lf', H)
    p = kid0(f)
    closed = z3.And(z3.ForAll([s], z3.Implies(sat(kid1(p))[s], Zset[s])),
                    z3.ForAll([s, d], z3.Implies(z3.And(sat(kid0(p))[s], edge(s, d), Zset[d]), Zset[s])))
    return z3.Implies(closed, z3.ForAll([s], z3.Implies(sat(f)[s], Zset[s])))


def eg_greatest(f, Zset, V, edge, witness):
    """instance of the greatest-fixpoint principle of E G phi at Z, with an
    explicit successor witness function for Z"""
    s = z3.Const('s!gf', H)
    p = kid0(f)
    post = z3.ForAll([s], z3.Implies(Zset[s], z3.And(sat(kid0(p))[s], edge(s, witness(s)), Zset[witness(s)])))
    return z3.Implies(post, z3.ForAll([s], z3.Implies(Zset[s], sat(f)[s])))


def class_table():
    """class name -> names of the alphabet classes that are its subclasses, read
    from the live package (CTL objects tested against CTLS classes)"""
    import pyModelChecking.CTL as CTL
    import pyModelChecking.CTLS as CTLS
    table = {}
    for name, cls in CTLS.alphabet.items():
        table[name] = sorted(n2 for n2, c2 in CTL.alphabet.items() if issubclass(c2, cls) and n2 in TAG)
    return table


class FormulaExt(Extension):
    def __init__(self):
        self.table = class_table()

    def global_name(self, E, k, name):
        if k.hints.get('ext') == 'sem':
            return None
        if name in ('CTLS', 'sys', 'CTL', 'LTL'):
            return SV('module', None, name)
        if name == 'Bool':
            return SV('func', None, ('fctor', 'Bool'))
        if name in ('Formula', 'StateFormula', 'PathFormula', 'Parser'):
            return SV('type', None, name)
        return None

    def attribute(self, E, ex, base, attr, path, node):
        if ex.k.hints.get('ext') == 'sem':
            return None
        if base.ty == 'module' and base.x not in ('sys', 'CTLS', 'CTL', 'LTL', 'Lang'):
            return None
        if base.ty == 'module':
            if base.x == 'sys' and attr == 'modules':
                return SV('sysmodules')
            if base.x in ('CTLS', 'CTL', 'Lang'):
                if attr == 'Bool':
                    return SV('func', None, ('fctor', 'Bool'))
                if attr in self.table or attr in TAG:
                    return SV('fclass', None, attr)
            raise Unsupported('module attribute %s.%s' % (base.x, attr))
        if base.ty == 'F':
            if attr == 'name':
                # only atomic propositions have a name
                ex.may_raise('AttributeError', z3.Not(is_tag(base.t, 'AtomicProposition')), path, node)
                return SV('H', apname(base.t))
            if attr == '__module__':
                return SV('str')
            return SV('bound', None, (base, attr))
        return None

    def subscript(self, E, ex, base, idx, path, node):
        if ex.k.hints.get('ext') == 'sem':
            return None
        if base.ty == 'sysmodules':
            return SV('module', None, 'Lang')
        return None

    def equal(self, E, ex, a, b, path, node):
        if ex.k.hints.get('ext') == 'sem':
            return None
        if a.ty == 'F' and b.ty == 'F':
            return a.t == b.t
        return None

    def isinstance(self, E, ex, a, cls, path, node):
        if ex.k.hints.get('ext') == 'sem':
            return None
        if a.ty == 'text' and cls.ty == 'func' and cls.x[0] == 'builtin' and cls.x[1] == 'str':
            return SV('bool', z3.BoolVal(True))
        if a.ty == 'F':
            if cls.ty == 'func' and cls.x[0] == 'fctor':
                cls = SV('fclass', None, cls.x[1])
            if cls.ty == 'fclass':
                names = self.table.get(cls.x)
                if names is None:
                    raise Unsupported('isinstance against %s' % cls.x)
                if not names:
                    return SV('bool', z3.BoolVal(False))
                return SV('bool', is_tag(a.t, *names))
            if cls.ty == 'func' and cls.x[0] == 'builtin' and cls.x[1] in ('bool', 'str'):
                return SV('bool', z3.BoolVal(False))
            if cls.ty == 'type' and cls.x in ('Formula', 'StateFormula', 'PathFormula'):
                # live class table: which alphabet classes of CTL are subclasses of CTL.<cls>
                import pyModelChecking.CTL as CTL
                base = getattr(CTL, cls.x)
                names = sorted(n_ for n_, c_ in CTL.alphabet.items() if issubclass(c_, base) and n_ in TAG)
                if set(names) == set(TAGS):
                    return SV('bool', z3.BoolVal(True))       # every class of the alphabet: statically true
                return SV('bool', is_tag(a.t, *names) if names else z3.BoolVal(False))
        return None

    def method(self, E, ex, base, attr, args, kwargs, path, node):
        if ex.k.hints.get('ext') == 'sem':
            return None
        if base.ty != 'F':
            return None
        f = base.t
        if attr == 'subformula':
            i = args[0]
            if i.ty != 'int' or not z3.is_int_value(i.t):
                raise Unsupported('subformula with a symbolic index')
            n = i.t.as_long()
            if n == 0:
                ok = z3.Not(is_tag(f, 'Bool', 'AtomicProposition'))
                ex.may_raise('TypeError', z3.Not(ok), path, node)
                return SV('F', kid0(f))
            if n == 1:
                ex.may_raise('IndexError', z3.Not(is_tag(f, 'Imply', 'U', 'R', 'Or', 'And')), path, node)
                return SV('F', kid1(f))
            raise Unsupported('subformula(%d)' % n)
        if attr == 'subformulas':
            c = hp.fresh('c!sf', F)
            return SV('coll', None, Coll('F', z3.Lambda([c], iskid(f, c)), False))
        if attr == 'get_equivalent_restricted_formula':
            return SV('F', restr(f))
        if attr == 'get_equivalent_non_fair_formula' and len(args) == 1 and args[0].ty == 'H':
            return SV('F', nonfair(f, args[0].t))
        return None

    def call_func(self, E, ex, fn, args, kwargs, path, node):
        if ex.k.hints.get('ext') == 'sem':
            return None
        if fn.x[0] == 'fctor' and fn.x[1] == 'Bool':
            a = args[0]
            if a.ty != 'bool':
                raise Unsupported('Bool(%s)' % a.ty)
            return SV('F', mkbool(a.t))
        return None

    def param_value(self, E, ex, name, ty, heap, pc):
        if ty == 'text':
            return SV('text', hp.fresh(name, H))
        return None

    def call_value(self, E, ex, fn, args, kwargs, path, node):
        if ex.k.hints.get('ext') == 'sem':
            return None
        if fn.ty == 'type' and fn.x == 'Parser' and not args:
            return SV('parserobj')
        if fn.ty == 'parserobj' and len(args) == 1 and args[0].ty == 'text':
            r = E.call_contract(ex, 'Parser.__call__', [fn, SV('H', args[0].t)], kwargs, path, node)
            return SV('F', FML(r.t))
        return None
