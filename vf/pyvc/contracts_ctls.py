"""Sidecar contracts for pyModelChecking/CTLS/model_checking.py: the FRAME and SAFETY part of
CTL* model checking by reduction (C07: the caller's structure is untouched; C19: the answer is a
new set of the structure's states; no exception other than TypeError leaves the call).

What the answer IS (C03) is not stated here: the reduction's correctness needs a substitution
lemma over relabelled structures and is decided by the bounded run-time contract only.

Formulas are opaque values of sort F with the constructors of vf/pyvc/formula_sem.py; the class
invariants of formula objects (arities) are assumptions (C08, bounded)."""
import z3

from . import heap as hp
from .heap import H
from .engine import Contract
from .contracts_graph import X, V, edge, frame
from .contracts_kripke import wfK, lref, lab_dict, S0, is_label_set, structure_kept
from . import formula_sem as fs
from .formula_sem import is_tag, nk

FILE = 'CTLS/model_checking.py'
I = z3.IntSort()
F = hp.F


def labels_frame(c):
    """everything allocated before the call is unchanged except the CONTENTS of the label sets of `kripke`"""
    k = c.kripke.t
    return frame(c.h0, c.h1, c.h0.alloc, {'sets': lambda r: is_label_set(c.h0, k, r)})


def labels_may_write(c, comp, ref):
    if comp == 'sets':
        return is_label_set(c.h0, c.kripke.t, ref)
    return None


TOUCH = {'sets', 'fd', 'fv', 'fs_len', 'fs_el', 'dd', 'dv', 'fld__next', 'rels'}


def install(E):
    common = {'ext': 'sem', 'list_kind': 'fseq', 'may_raise': ('TypeError',),
              # heap-shape obligations do not need the formula axioms
              'slice_heavy': r'^(loop\d:(?!elements)|call:[^:]+:requires:(kripke_wf|no_None_state|wf)|ensures:(wf|same_|only_states|fresh)|raises:)',
              'modelcheck_contracts': {'CTL': 'CTL.modelcheck(any object)', 'LTL': 'LTL.modelcheck'}, 'format_is_H': True}

    def facts(c):
        return [('documented_semantics', z3.And(fs.axioms() + fs.object_axioms() + fs.lnot_contract_facts() + fs.lnot_keeps_objects() + fs.nonfair_keeps_objects()))]

    # -- CTL.modelcheck as the CTL* reduction calls it: any formula object, frame and safety only ----------
    def any_ens(c):
        s = X('s')
        R = c.h1.set_of(c.res.t)
        return [('only_states', z3.ForAll([s], z3.Implies(R[s], V(c.h0, c.kripke.t)[s]))),
                ('fresh', z3.And(c.res.t >= c.h0.alloc, c.res.t < c.h1.alloc))]

    E.register(Contract(
        'CTL.modelcheck(any object)', 'ctl', [('kripke', 'kripke'), ('formula', 'F')], ret='set',
        requires=lambda c: [('kripke_wf', wfK(c.h0, c.kripke.t)), ('no_None_state', z3.Not(V(c.h0, c.kripke.t)[hp.NONE_H]))],
        ensures=any_ens, touches={'sets', 'fd', 'fv', 'dd', 'dv', 'fld__next', 'rels'}, hints={'may_raise': ('TypeError',), 'path': 'modelcheck'},
        owner='C07', assumed=True,
        note='ASSUMED at the call sites of the CTL* reduction: for ANY formula object CTL.modelcheck either raises TypeError (leaving '
             'everything as it was) or returns a new set of states and writes nothing that existed before. The body is proved '
             'against this frame for objects of the CTL classes (contract `modelcheck`); the cast leg (cast_to) is taken to '
             'touch formula objects only'), 'CTL/model_checking.py')

    # -- _remove_state_subformulas ------------------------------------------------------------------------
    def rs_req(c):
        out = [('kripke_wf', wfK(c.h0, c.kripke.t)), ('no_None_state', z3.Not(V(c.h0, c.kripke.t)[hp.NONE_H])),
               # arities of the formula object and of everything below it (class invariant: C08, bounded; KF-C08-1)
               ('formula_object_invariant', fs.wfobj(c.formula.t))]
        if c.side == 'callee':
            out += facts(c)
        return out

    def rs_ens(c):
        return structure_kept(c.h0, c.h1, c.kripke.t) + [('result_object_invariant', fs.wfobj(c.res.t))]

    def rs_l1(lc):
        # for s in _checkQuantifiedFormula(...): kripke.labels(s).add(f_atom)
        c, h, he = lc.c, lc.h, lc.h_entry
        k = c.kripke.t
        s = X('s')
        return [('iterated_set_is_new', z3.And(lc.coll.src[1] >= c.h0.alloc, lc.coll.src[1] < he.alloc)),
                ('iterated_are_states', z3.ForAll([s], z3.Implies(lc.coll.mem[s], V(c.h0, k)[s]))),
                ('alloc', h.alloc >= he.alloc)] \
            + structure_kept(c.h0, h, k) \
            + [('since_entry:' + n_, f_) for n_, f_ in frame(c.h0, h, c.h0.alloc, {'sets': lambda r: is_label_set(c.h0, k, r)})] \
            + [('since_loop:' + n_, f_) for n_, f_ in frame(he, h, he.alloc, {'sets': lambda r: is_label_set(c.h0, k, r)})]

    def rs_l2(lc):
        # for sf in formula.subformulas(): sfs.append(_remove_state_subformulas(kripke, sf, fair_label))
        c, h, he = lc.c, lc.h, lc.h_entry
        k = c.kripke.t
        L = lc.env['sfs'].t
        j = z3.Int('j!rs')
        return [('list_is_own', z3.And(L >= c.h0.alloc, L < he.alloc)),
                ('length', h['fs_len'][L] == lc.seen),
                ('elements', z3.ForAll([j], z3.Implies(z3.And(0 <= j, j < lc.seen), fs.wfobj(h['fs_el'][L][j])), patterns=[h['fs_el'][L][j]])),
                ('alloc', h.alloc >= he.alloc)] \
            + structure_kept(c.h0, h, k) \
            + [('since_entry:' + n_, f_) for n_, f_ in frame(c.h0, h, c.h0.alloc, {'sets': lambda r: is_label_set(c.h0, k, r)})]

    E.register(Contract(
        '_remove_state_subformulas', 'ctls', [('kripke', 'kripke'), ('formula', 'F'), ('fair_label', 'Hopt')], ret='F',
        requires=rs_req, ensures=rs_ens, frame=labels_frame, may_write=labels_may_write, raise_unchanged=False,
        loops={1: rs_l1, 2: rs_l2}, loop_touches={1: {'sets'}, 2: TOUCH}, touches=TOUCH,
        hints=dict(common, raise_keeps=lambda c: []), owner='C03',
        note='frame and safety only; with or without a fairness label'), FILE)

    # -- _checkQuantifiedFormula ----------------------------------------------------------------------------
    def cq_req(c):
        out = rs_req(c)
        out.append(('receiver_is_quantified', is_tag(c.formula.t, 'A', 'E')))
        return out

    def cq_ens(c):
        s = X('s')
        R = c.h1.set_of(c.res.t)
        return structure_kept(c.h0, c.h1, c.kripke.t) + [
            ('only_states', z3.ForAll([s], z3.Implies(R[s], V(c.h0, c.kripke.t)[s]))),
            ('fresh', z3.And(c.res.t >= c.h0.alloc, c.res.t < c.h1.alloc))]

    E.register(Contract(
        '_checkQuantifiedFormula', 'ctls', [('kripke', 'kripke'), ('formula', 'F'), ('fair_label', 'Hopt')], ret='set',
        requires=cq_req, ensures=cq_ens, frame=labels_frame, may_write=labels_may_write, raise_unchanged=False,
        touches=TOUCH, hints=dict(common), owner='C03', note='frame and safety only; with or without a fairness label'), FILE)

    def mc_req(c):
        out = rs_req(c)
        r = z3.Int('r!mc')
        if c.F.ty == 'opt':
            out.append(('constraints_are_sets', z3.ForAll([r], z3.Implies(z3.And(z3.Not(c.F.x[0]), c.F.x[1].x.mem[r]), z3.And(r >= 0, r < c.h0.alloc)))))
        return out

    # -- CTLS.modelcheck (object formula, F=None) -------------------------------------------------------------
    def mc_ens(c):
        s = X('s')
        R = c.h1.set_of(c.res.t)
        return [('only_states', z3.ForAll([s], z3.Implies(R[s], V(c.h0, c.kripke.t)[s]))),
                ('fresh', z3.And(c.res.t >= c.h0.alloc, c.res.t < c.h1.alloc))]

    E.register(Contract(
        'CTLS.modelcheck', 'ctls', [('kripke', 'kripke'), ('formula', 'F'), ('parser', 'none'), ('F', 'opt:iterRefSets')], ret='set',
        requires=mc_req, ensures=mc_ens, touches={'sets', 'fd', 'fv', 'fs_len', 'fs_el', 'dd', 'dv', 'rels', 'fld__next', 'fld__labels', 'fld_S0'},
        hints=dict(common, path='modelcheck'), owner='C03',
        note='object formula, F=None or a container of sets: nothing that existed before the call is written (also when TypeError is raised); '
             'the result is a new set of states of the caller\'s structure'), FILE)
    from .contracts_parser import lark_tok, lark_chr, lark_val
    from .formula import FML
    from .heap import SV

    class _TextCtx(object):
        """the object-formula clauses, read at the formula the parser returns"""
        def __init__(self, c):
            self.__dict__['c'] = c

        def __getattr__(self, name):
            if name == 'formula':
                return SV('F', FML(lark_val(self.__dict__['c'].formula.t)))
            return getattr(self.__dict__['c'], name)

    E.register(Contract(
        'CTLS.modelcheck(text)', 'ctls', [('kripke', 'kripke'), ('formula', 'text'), ('parser', 'none'), ('F', 'opt:iterRefSets')], ret='set',
        requires=lambda c: mc_req(_TextCtx(c)), ensures=lambda c: mc_ens(_TextCtx(c)),
        touches={'sets', 'fd', 'fv', 'fs_len', 'fs_el', 'dd', 'dv', 'rels', 'fld__next', 'fld__labels', 'fld_S0'},
        hints=dict(common, path='modelcheck', may_raise=('TypeError', 'pkg.UnexpectedToken', 'pkg.UnexpectedCharacters')), owner='C03',
        note='text formula, default parser: frame and safety as for the object leg, about the formula object the parser returns; '
             'parse errors propagate as the package\'s ParserError subclasses'), FILE)
    return ['_remove_state_subformulas', '_checkQuantifiedFormula', 'CTLS.modelcheck', 'CTLS.modelcheck(text)']
