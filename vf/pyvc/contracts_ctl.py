"""Sidecar contracts for pyModelChecking/CTL/model_checking.py (property C01;
C07/C19 use the frame and safety obligations).  Top-level postcondition
`result = sat(K, formula)` is the statement of C01; `sat` is axiomatised by the
documented semantics in fixpoint form (vf/pyvc/formula.py, trusted base)."""
import z3

from . import heap as hp
from .heap import H, F
from .engine import Contract
from .contracts_graph import X, V, edge, frame
from .contracts_kripke import wfK, Lab
from . import formula as fm
from .formula import tag, kid0, kid1, iskid, sat, wfS, is_tag, restr

FILE = 'CTL/model_checking.py'
I = z3.IntSort()

# the range of a memo table (set of the references it stores), skolemised like isend
rng = z3.Function('rng', hp.SetF, z3.ArraySort(F, I), hp.SetR)
rng_w = z3.Function('rng_witness', hp.SetF, z3.ArraySort(F, I), I, F)


def rng_axioms():
    D = z3.Const('D!rg', hp.SetF)
    Vv = z3.Const('V!rg', z3.ArraySort(F, I))
    g = z3.Const('g!rg', F)
    r, r0 = z3.Const('r!rg', I), z3.Const('r0!rg', I)
    upd = rng(z3.Store(D, g, True), z3.Store(Vv, g, r0))
    return [
        z3.ForAll([D, Vv, g], z3.Implies(D[g], rng(D, Vv)[Vv[g]]), patterns=[z3.MultiPattern(D[g], rng(D, Vv))]),
        z3.ForAll([D, Vv, r], z3.Implies(rng(D, Vv)[r], z3.And(D[rng_w(D, Vv, r)], Vv[rng_w(D, Vv, r)] == r)),
                  patterns=[rng(D, Vv)[r]]),
        z3.ForAll([D, Vv, g, r0, r], z3.Implies(upd[r], z3.Or(rng(D, Vv)[r], r == r0)), patterns=[upd[r]]),
    ]


def Rng(h, L):
    return rng(h.fdom(L), h.fval(L))


def memo_inv(h, L):
    g = z3.Const('g!mi', F)
    s = X('s')
    return z3.And(
        z3.ForAll([g, s], z3.Implies(h.fdom(L)[g], h.set_of(h.fval(L)[g])[s] == sat(g)[s])),
        z3.ForAll([g], z3.Implies(h.fdom(L)[g], z3.And(h.fval(L)[g] >= 0, h.fval(L)[g] < h.alloc))))


def memo_grows(h0, h1, L):
    g = z3.Const('g!mg', F)
    r = z3.Const('r!mg', I)
    return [
        # (an entry may be overwritten by a new set with the same meaning: the Boolean and the
        #  rewriting branches of _checkStateFormula store without testing membership first)
        ('memo_keeps_keys', z3.ForAll([g], z3.Implies(h0.fdom(L)[g], h1.fdom(L)[g]))),
        ('memo_new_values_fresh', z3.ForAll([r], z3.Implies(Rng(h1, L)[r], z3.Or(Rng(h0, L)[r], r >= h0.alloc)))),
    ]


def ctx_axioms(c):
    h0, k = c.h0, c.kripke.t
    return fm.syntax_axioms() + rng_axioms() + fm.semantic_axioms(
        V(h0, k), lambda s, d: edge(h0, k, s, d), lambda s: Lab(h0, k, s))


def common_requires(c, *tags):
    h0, k, f, L = c.h0, c.kripke.t, c.formula.t, c.L.t
    out = [('kripke_wf', wfK(h0, k)),
           ('no_None_state', z3.Not(V(h0, k)[hp.NONE_H])),       # KF-C19-1: labels(None) is the union
           ('formula_wf', wfS(f)),
           ('memo_valid', z3.And(L >= 0, L < h0.alloc)),
           ('memo_inv', memo_inv(h0, L))]
    if tags:
        out.append(('formula_kind', tags[0](f)))
    if c.side == 'callee':
        out.append(('documented_semantics', z3.And(ctx_axioms(c))))
    return out


def common_ensures(c):
    h0, h1, f, L = c.h0, c.h1, c.formula.t, c.L.t
    s = X('s')
    R = h1.set_of(c.res.t)
    return [
        ('result_is_sat', z3.ForAll([s], R[s] == sat(f)[s])),
        ('result_only_states', z3.ForAll([s], z3.Implies(R[s], V(h0, c.kripke.t)[s]))),
        ('result_valid', z3.And(c.res.t >= 0, c.res.t < h1.alloc)),
        ('result_in_memo_or_fresh', z3.Or(Rng(h1, L)[c.res.t], c.res.t >= h0.alloc)),
        ('memo_inv', memo_inv(h1, L)),
    ] + memo_grows(h0, h1, L)


def memo_frame(c):
    L = c.L.t
    own = lambda r: r == L         # noqa
    return frame(c.h0, c.h1, c.h0.alloc, {'fd': own, 'fv': own})


def memo_may_write(c, comp, ref):
    if comp in ('fd', 'fv'):
        return ref == c.L.t
    return None


# components in which a caller can observe a change or an allocation (the labelling builds graph objects and
# pair lists on the way; enforced against the bodies: obligations `declared:untouched:*`)
TOUCH = {'sets', 'fd', 'fv', 'dd', 'dv', 'fld__next', 'rels'}
PARAMS = [('kripke', 'kripke'), ('formula', 'F'), ('L', 'fdict')]


def loop_common(lc, acc='Lformula'):
    """facts every labelling loop keeps: the accumulator is a set allocated by this
    activation and not referenced by the memo table; the memo table and everything
    allocated before the loop are unchanged except the accumulator"""
    c, h, he = lc.c, lc.h, lc.h_entry
    L = c.L.t
    A = lc.env[acc].t
    own = lambda r: r == A         # noqa
    return [
        ('acc_fresh', z3.And(A >= c.h0.alloc, A < he.alloc)),
        ('acc_not_in_memo', z3.Not(Rng(h, L)[A])),
        ('memo_inv', memo_inv(h, L)),
        ('alloc', h.alloc >= he.alloc),
    ] + [('since_entry:' + n, f) for n, f in memo_grows(c.h0, h, L)] \
      + frame(he, h, he.alloc, {'sets': own})


def eu_lfp_schema(c):
    """least-fixpoint principle of E(phi0 U phi1) (second-order, trusted semantics): for EVERY set
    Z containing sat(phi1) and closed under `phi0-predecessor`, sat(f) is within Z"""
    f = c.formula.t
    k = c.kripke.t
    p = kid0(f)
    Z = z3.Const('Z!lfp', hp.SetH)
    s, d = z3.Const('s!lfp', H), z3.Const('d!lfp', H)     # fixed names: the schema is compared syntactically
    closed = z3.And(z3.ForAll([s], z3.Implies(sat(kid1(p))[s], Z[s])),
                    z3.ForAll([s, d], z3.Implies(z3.And(sat(kid0(p))[s], edge(c.h0, k, s, d), Z[d]), Z[s])))
    return z3.ForAll([Z], z3.Implies(closed, z3.ForAll([s], z3.Implies(sat(f)[s], Z[s]))))


def complete_clause(lc, A, phi):
    s, d = X('s'), X('d')
    body = z3.Implies(z3.And(lc.seen[s, d], sat(phi)[d]), A[s])
    q = z3.simplify(A[s])
    if z3.is_app(q) and q.decl().kind() == z3.Z3_OP_SELECT and not hp._has_binder(A[s]):
        return z3.ForAll([s, d], body, patterns=[z3.MultiPattern(A[s], sat(phi)[d])])
    return z3.ForAll([s, d], body)


cyc_node = z3.Function('eg_cycle_node', F, H, H)
cyc_next = z3.Function('eg_cycle_next', F, H, H)


def eg_gfp_schema(f, edgefn):
    """greatest-fixpoint principle of E G phi (second-order, trusted semantics): EVERY set Z whose
    members satisfy phi and have a successor in Z lies within sat(f)"""
    phi = kid0(kid0(f))
    Z = z3.Const('Z!gfp', hp.SetH)
    s, d = z3.Const('s!gfp', H), z3.Const('d!gfp', H)
    post = z3.ForAll([s], z3.Implies(Z[s], z3.And(sat(phi)[s], z3.Exists([d], z3.And(edgefn(s, d), Z[d])))))
    return z3.ForAll([Z], z3.Implies(post, z3.ForAll([s], z3.Implies(Z[s], sat(f)[s]))))


def eg_trusted(f, edgefn, Ep, edge_trigger=None):
    """what the proof of _checkEG assumes beyond the fixpoint axioms (DESIGN.md 10.7): named clauses"""
    phi = kid0(kid0(f))
    a, b, s = z3.Const('a!egt', H), z3.Const('b!egt', H), z3.Const('s!egt', H)
    cn, nx_ = cyc_node(f, s), cyc_next(f, s)
    return [
        # definition of a name: the transition relation restricted to phi-states
        ('Ephi_def', hp.FA([a, b], Ep[a, b] == z3.And(edgefn(a, b), sat(phi)[a], sat(phi)[b]),
                           [Ep[a, b]] + ([edge_trigger(a, b)] if edge_trigger else []))),
        ('gfp_principle', eg_gfp_schema(f, edgefn)),
        # CGP00 Lemma 4.1 (completeness half, finite structures): an infinite phi-path from s
        # revisits some node; that node is reached through phi-states and lies on a phi-cycle
        ('finite_structure_cycle_lemma', z3.ForAll([s], z3.Implies(sat(f)[s], z3.And(
            hp.rtc(Ep)[s, cn], Ep[cn, nx_], hp.rtc(Ep)[nx_, cn])), patterns=[sat(f)[s]])),
        ('rtc_axioms', z3.And(hp.rtc_axioms())),
        ('rtc_induction', hp.RTC_INDUCTION),
        ('rtc_converse', hp.RTC_CONVERSE),
    ]


def install(E):
    from .formula import FormulaExt
    E.ext.append(FormulaExt())

    def reg(k):
        E.register(k, FILE)

    # -- _checkAtomicProposition -------------------------------------------------
    def ap_l1(lc):
        c, h = lc.c, lc.h
        k, f = c.kripke.t, c.formula.t
        s = X('s')
        A = h.set_of(lc.env['Lformula'].t)
        return loop_common(lc) + [
            ('partial', z3.ForAll([s], A[s] == z3.And(lc.seen[s], Lab(c.h0, k, s)[fm.apname(f)]))),
        ]

    reg(Contract(
        '_checkAtomicProposition', 'ctl', PARAMS, ret='set',
        requires=lambda c: common_requires(c, lambda f: is_tag(f, 'AtomicProposition')),
        ensures=common_ensures, frame=memo_frame, may_write=memo_may_write,
        touches=TOUCH, loop_touches={1: {'sets'}}, loops={1: ap_l1}, owner='C01'))

    # -- _checkNot -----------------------------------------------------------------
    def not_l1(lc):
        c, h = lc.c, lc.h
        f = c.formula.t
        s = X('s')
        A = h.set_of(lc.env['Lformula'].t)
        P = h.set_of(lc.env['Lphi'].t)
        return loop_common(lc) + [
            ('operand', z3.ForAll([s], P[s] == sat(kid0(f))[s])),
            ('operand_is_other_set', lc.env['Lphi'].t != lc.env['Lformula'].t),
            ('partial', z3.ForAll([s], A[s] == z3.And(lc.seen[s], z3.Not(sat(kid0(f))[s])))),
        ]

    reg(Contract(
        '_checkNot', 'ctl', PARAMS, ret='set',
        requires=lambda c: common_requires(c, lambda f: is_tag(f, 'Not')),
        ensures=common_ensures, frame=memo_frame, may_write=memo_may_write,
        touches=TOUCH, loop_touches={1: {'sets'}}, loops={1: not_l1}, owner='C01'))

    # -- _checkEX ---------------------------------------------------------------------
    def ex_l1(lc):
        c, h = lc.c, lc.h
        k, f = c.kripke.t, c.formula.t
        s, d = X('s'), X('d')
        phi = kid0(kid0(f))
        A = h.set_of(lc.env['Lformula'].t)
        P = h.set_of(lc.env['Lphi'].t)
        return loop_common(lc) + [
            ('operand', z3.ForAll([s], P[s] == sat(phi)[s])),
            ('operand_is_other_set', lc.env['Lphi'].t != lc.env['Lformula'].t),
            ('sound', z3.ForAll([s], z3.Implies(A[s], sat(f)[s]))),
            ('complete_so_far', complete_clause(lc, A, phi)),
        ]

    reg(Contract(
        '_checkEX', 'ctl', PARAMS, ret='set',
        requires=lambda c: common_requires(c, lambda f: z3.And(is_tag(f, 'E'), is_tag(kid0(f), 'X'))),
        ensures=common_ensures, frame=memo_frame, may_write=memo_may_write,
        touches=TOUCH, loop_touches={1: {'sets'}}, loops={1: ex_l1}, owner='C01'))

    # -- _checkOr ------------------------------------------------------------------------
    def or_l1(lc):
        c, h = lc.c, lc.h
        f = c.formula.t
        s = X('s')
        g = z3.Const('g!or', F)
        A = h.set_of(lc.env['Lformula'].t)
        return or_common(lc) + [
            ('sound', z3.ForAll([s], z3.Implies(A[s], sat(f)[s]))),
            ('complete_so_far', z3.ForAll([g, s], z3.Implies(z3.And(lc.seen[g], sat(g)[s]), A[s]))),
        ]

    def or_common(lc):
        # like loop_common, but the outer loop's body calls the labelling recursively, so the
        # heap components the callee touches are havocked as well
        c, h, he = lc.c, lc.h, lc.h_entry
        L = c.L.t
        A = lc.env['Lformula'].t
        own = lambda r: r == A         # noqa
        ownL = lambda r: r == L        # noqa
        return [
            ('acc_fresh', z3.And(A >= c.h0.alloc, A < he.alloc)),
            ('acc_not_in_memo', z3.Not(Rng(h, L)[A])),
            ('memo_inv', memo_inv(h, L)),
            ('alloc', h.alloc >= he.alloc),
        ] + [('since_entry:' + n, f) for n, f in memo_grows(c.h0, h, L)] \
          + frame(c.h0, h, c.h0.alloc, {'fd': ownL, 'fv': ownL})

    def or_l2(lc):
        c, h = lc.c, lc.h
        f = c.formula.t
        s = X('s')
        g = z3.Const('g!or', F)
        A = h.set_of(lc.env['Lformula'].t)
        sf = lc.env['sf'].t
        outer = lc.outer[1]
        return or_common(lc) + [
            ('operand_is_kid', z3.And(iskid(f, sf), wfS(sf))),
            ('iterated_is_not_acc', lc.coll.src[1] != lc.env['Lformula'].t),
            ('iterated_is_sat', z3.ForAll([s], lc.coll.mem[s] == sat(sf)[s])),
            ('sound', z3.ForAll([s], z3.Implies(A[s], sat(f)[s]))),
            ('complete_so_far', z3.ForAll([g, s], z3.Implies(z3.And(outer[g], sat(g)[s]), A[s]))),
            ('current_so_far', z3.ForAll([s], z3.Implies(lc.seen[s], A[s]))),
        ]

    reg(Contract(
        '_checkOr', 'ctl', PARAMS, ret='set',
        requires=lambda c: common_requires(c, lambda f: is_tag(f, 'Or')),
        ensures=common_ensures, frame=memo_frame, may_write=memo_may_write,
        touches=TOUCH, loop_touches={1: TOUCH, 2: {'sets'}}, loops={1: or_l1, 2: or_l2}, owner='C01'))

    # -- _checkStateFormula (dispatch; contract also used for every recursive call) --------
    reg(Contract(
        '_checkStateFormula', 'ctl', PARAMS, ret='set',
        requires=lambda c: common_requires(c),
        ensures=common_ensures, frame=memo_frame, may_write=memo_may_write,
        touches=TOUCH, owner='C01'))

    # -- _checkEU ---------------------------------------------------------------------------
    # The code builds G3 = reversed( K restricted to phi0-states ) plus an edge (w, v) for every
    # K-edge v -> w with v |= phi0, w |= phi1, plus the phi1-states as nodes, and returns the set
    # reachable from the phi1-states in G3.  Invariants describe G3 by soundness/completeness
    # implications (no existential quantifier).
    from .contracts_graph import wfG, sref, succ, nx, reach_least_instance

    def eu_view(lc):
        c, h = lc.c, lc.h
        f = c.formula.t
        p = kid0(f)
        sg = lc.env['subgraph'].t
        P0 = h.set_of(lc.env['Lphi'].x[0].t)
        P1 = h.set_of(lc.env['Lphi'].x[1].t)
        return c, h, c.kripke.t, f, p, sg, P0, P1

    def eu_common(lc):
        c, h, k, f, p, sg, P0, P1 = eu_view(lc)
        he = lc.h_entry
        L = c.L.t
        s, a, b = X('s'), X('a'), X('b')
        g_ = z3.Const('g!eu', F)
        ownL = lambda r: r == L        # noqa
        return [
            ('phi0', z3.ForAll([s], P0[s] == sat(kid0(p))[s])),
            ('phi1', z3.ForAll([s], P1[s] == sat(kid1(p))[s])),
            ('operands_old', z3.And(lc.env['Lphi'].x[0].t < he.alloc, lc.env['Lphi'].x[1].t < he.alloc,
                                    lc.env['Lphi'].x[0].t >= 0, lc.env['Lphi'].x[1].t >= 0)),
            ('subgraph_own', z3.And(sg >= c.h0.alloc, sg < he.alloc, nx(h, sg) == nx(he, sg), nx(h, sg) >= c.h0.alloc)),
            ('subgraph_wf', wfG(h, sg)),
            ('subgraph_sets_own', z3.ForAll([s], z3.Implies(V(h, sg)[s], sref(h, sg, s) >= c.h0.alloc))),
            ('nodes_cover_phi0', z3.ForAll([s], z3.Implies(P0[s], V(h, sg)[s]))),
            ('nodes_within', z3.ForAll([s], z3.Implies(V(h, sg)[s], z3.Or(P0[s], P1[s])))),
            ('edges_sound', hp.FA([a, b], z3.Implies(edge(h, sg, a, b), z3.And(edge(c.h0, k, b, a), P0[b], z3.Or(P0[a], P1[a]))),
                                  [succ(h, sg, a)[b]])),
            ('edges_phi0', hp.FA([a, b], z3.Implies(z3.And(P0[a], P0[b], edge(c.h0, k, b, a)), edge(h, sg, a, b)),
                                 [succ(c.h0, k, b)[a], succ(h, sg, a)[b]])),
            ('memo_inv', memo_inv(h, L)),
            # the memo table's sets were all allocated before the subgraph (its dict and successor sets)
            ('memo_below_subgraph', z3.ForAll([g_], z3.Implies(h.fdom(L)[g_], h.fval(L)[g_] < nx(h, sg)))),
            ('subgraph_sets_above_dict', z3.ForAll([s], z3.Implies(V(h, sg)[s], sref(h, sg, s) > nx(h, sg)))),
            ('operands_below_subgraph', z3.And(lc.env['Lphi'].x[0].t < nx(h, sg), lc.env['Lphi'].x[1].t < nx(h, sg))),
            ('alloc', h.alloc >= he.alloc),
        ] + [('since_entry:' + n_, f_) for n_, f_ in memo_grows(c.h0, h, L)] \
          + frame(c.h0, h, c.h0.alloc, {'fd': ownL, 'fv': ownL}) \
          + [('operand_sets_unchanged', z3.And(h.set_of(lc.env['Lphi'].x[0].t) == he.set_of(lc.env['Lphi'].x[0].t),
                                               h.set_of(lc.env['Lphi'].x[1].t) == he.set_of(lc.env['Lphi'].x[1].t)))]

    def eu_l2(lc):
        c, h, k, f, p, sg, P0, P1 = eu_view(lc)
        v, w = X('v'), X('w')
        return eu_common(lc) + [
            ('edges_phi1_so_far', hp.FA([v, w], z3.Implies(z3.And(lc.seen[v], edge(c.h0, k, v, w), P1[w]), edge(h, sg, w, v)),
                                        [succ(c.h0, k, v)[w], succ(h, sg, w)[v]])),
        ]

    def eu_l3(lc):
        c, h, k, f, p, sg, P0, P1 = eu_view(lc)
        v, w = X('v'), X('w')
        cur = lc.env['v'].t
        outer = lc.outer[2]
        return eu_common(lc) + [
            ('edges_phi1_so_far', hp.FA([v, w], z3.Implies(z3.And(outer[v], edge(c.h0, k, v, w), P1[w]), edge(h, sg, w, v)),
                                        [succ(c.h0, k, v)[w], succ(h, sg, w)[v]])),
            ('current', z3.And(P0[cur], V(c.h0, k)[cur])),
            ('iterated_is_next_and_phi1', z3.ForAll([w], lc.coll.mem[w] == z3.And(edge(c.h0, k, cur, w), P1[w]))),
            ('current_so_far', z3.ForAll([w], z3.Implies(lc.seen[w], edge(h, sg, w, cur)))),
            ('iterated_set_is_not_a_subgraph_set', z3.And(
                lc.coll.src[1] > nx(h, sg),
                z3.ForAll([w], z3.Implies(V(h, sg)[w], sref(h, sg, w) != lc.coll.src[1])))),
        ]

    def eu_l4(lc):
        c, h, k, f, p, sg, P0, P1 = eu_view(lc)
        he = lc.h_entry
        v, w, s, a, b = X('v'), X('w'), X('s'), X('a'), X('b')
        return eu_common(lc) + [
            ('edges_phi1', hp.FA([v, w], z3.Implies(z3.And(P0[v], edge(c.h0, k, v, w), P1[w]), edge(h, sg, w, v)),
                                 [succ(c.h0, k, v)[w], succ(h, sg, w)[v]])),
            ('nodes_added', z3.ForAll([s], V(h, sg)[s] == z3.Or(V(he, sg)[s], lc.seen[s]))),
            ('edges_kept', hp.FA([a, b], edge(h, sg, a, b) == edge(he, sg, a, b), [succ(h, sg, a)[b], succ(he, sg, a)[b]])),
            ('iterated_is_missing_phi1', z3.ForAll([s], lc.coll.mem[s] == z3.And(P1[s], z3.Not(V(he, sg)[s])))),
        ]

    def eu_cut_lfp_instance(c, path):
        # forall-elimination of the (assumed) least-fixpoint principle at Z := the returned set
        return eu_lfp_schema(c), [c.h1.set_of(c.res.t)]

    def eu_cut_sound(c, path):
        s = X('s')
        R = c.h1.set_of(c.res.t)
        return z3.ForAll([s], z3.Implies(R[s], sat(c.formula.t)[s]), patterns=[R[s]])

    def eu_cut_base(c, path):
        s = X('s')
        R = c.h1.set_of(c.res.t)
        phi1 = kid1(kid0(c.formula.t))
        return z3.ForAll([s], z3.Implies(sat(phi1)[s], R[s]), patterns=[sat(phi1)[s]])

    def eu_cut_step(c, path):
        s, d = X('s'), X('d')
        R = c.h1.set_of(c.res.t)
        phi0 = kid0(kid0(c.formula.t))
        return z3.ForAll([s, d], z3.Implies(z3.And(sat(phi0)[s], edge(c.h0, c.kripke.t, s, d), R[d]), R[s]),
                         patterns=[z3.MultiPattern(sat(phi0)[s], R[d])])

    def eu_cut_complete(c, path):
        s = X('s')
        R = c.h1.set_of(c.res.t)
        return z3.ForAll([s], z3.Implies(sat(c.formula.t)[s], R[s]), patterns=[sat(c.formula.t)[s]])

    def eu_reach_hint(cc, c, path):
        # instance of `least` of get_reachable_set_from at Z := sat(formula)
        return [reach_least_instance(c, sat(cc.formula.t))]

    reg(Contract(
        '_checkEU', 'ctl', PARAMS, ret='set',
        requires=lambda c: common_requires(c, lambda f: z3.And(is_tag(f, 'E'), is_tag(kid0(f), 'U'))) + (
            [('lfp_principle', eu_lfp_schema(c))] if c.side == 'callee' else []),
        ensures=common_ensures, frame=memo_frame, may_write=memo_may_write,
        touches=TOUCH, loop_touches={2: {'dd', 'dv', 'sets'}, 3: {'dd', 'dv', 'sets'}, 4: {'dd', 'dv', 'sets'}},
        loops={2: eu_l2, 3: eu_l3, 4: eu_l4},
        hints={'call': {'DiGraph.get_reachable_set_from': eu_reach_hint},
               'heavy_requires': ('kripke_wf',), 'slice_more': r':cut[345]$', 'schemas': ('lfp_principle',),
               # structural invariants of the constructed graph do not need the semantics axioms
               'slice_heavy': r':(edges_phi0|edges_phi1|edges_phi1_so_far|edges_sound|edges_kept|nodes_within|nodes_added|subgraph_|memo_below|operands_|'
                              r'iterated_|current|operand_sets|since_entry|phi[01]:preserved|nodes_cover_phi0:preserved|memo_inv:preserved|:cut3$|:cut4$|:cut5$)',
               'cuts': {'ensures:result_is_sat': [eu_cut_lfp_instance, eu_cut_sound, eu_cut_base, eu_cut_step, eu_cut_complete],
                        'ensures:memo_inv': [eu_cut_lfp_instance, eu_cut_sound, eu_cut_base, eu_cut_step, eu_cut_complete]}}, owner='C01'))
    # -- modelcheck (object formula, no fairness): the API-level statement of C01/C19 ------------
    STATE_TAGS = ('Not', 'Or', 'And', 'Imply', 'Bool', 'AtomicProposition', 'A', 'E')

    def mc_requires(c):
        h0, k, f = c.h0, c.kripke.t, c.formula.t
        out = [('kripke_wf', wfK(h0, k)),
               ('no_None_state', z3.Not(V(h0, k)[hp.NONE_H])),
               # a CTL formula object: its state-formula class implies the documented grammar (C08, bounded)
               ('objects_of_state_classes_are_wf', z3.Implies(is_tag(f, *STATE_TAGS), wfS(f)))]
        if c.side == 'callee':
            out.append(('documented_semantics', z3.And(ctx_axioms(c))))
        return out

    def mc_ensures(c):
        s = X('s')
        R = c.h1.set_of(c.res.t)
        return [('result_is_sat', z3.ForAll([s], R[s] == sat(c.formula.t)[s])),
                ('result_is_fresh', z3.And(c.res.t >= c.h0.alloc, c.res.t < c.h1.alloc))]

    reg(Contract(
        'modelcheck', 'ctl', [('kripke', 'kripke'), ('formula', 'F'), ('parser', 'none'), ('F', 'none')], ret='set',
        requires=mc_requires, ensures=mc_ensures,
        raises={'TypeError': lambda c: z3.Not(is_tag(c.formula.t, *STATE_TAGS))},
        touches=set(TOUCH), hints={'dict_kind_default': 'fdict'}, owner='C01',
        note='object formulas, F=None; the text/parser leg and the fairness leg are bounded only'))

    # -- modelcheck on a TEXT formula (parser=None): the same statement about the formula the parser returns ----
    from .contracts_parser import lark_tok, lark_chr, lark_val

    def parsed(c):
        return fm.FML(lark_val(c.formula.t))

    def mct_requires(c):
        h0, k = c.h0, c.kripke.t
        f = parsed(c)
        out = [('kripke_wf', wfK(h0, k)),
               ('no_None_state', z3.Not(V(h0, k)[hp.NONE_H])),
               # what the parser returns is an object of the CTL classes (C10, bounded): its state-formula class implies the grammar
               ('objects_of_state_classes_are_wf', z3.Implies(is_tag(f, *STATE_TAGS), wfS(f)))]
        if c.side == 'callee':
            h_, k_ = c.h0, c.kripke.t
            out.append(('documented_semantics', z3.And(fm.syntax_axioms() + rng_axioms() + fm.semantic_axioms(
                V(h_, k_), lambda s, d: edge(h_, k_, s, d), lambda s: Lab(h_, k_, s)))))
        return out

    def mct_ensures(c):
        s = X('s')
        R = c.h1.set_of(c.res.t)
        return [('result_is_sat_of_the_parsed_formula', z3.ForAll([s], R[s] == sat(parsed(c))[s])),
                ('result_is_fresh', z3.And(c.res.t >= c.h0.alloc, c.res.t < c.h1.alloc))]

    reg(Contract(
        'CTL.modelcheck(text)', 'ctl', [('kripke', 'kripke'), ('formula', 'text'), ('parser', 'none'), ('F', 'none')], ret='set',
        requires=mct_requires, ensures=mct_ensures,
        raises={'pkg.UnexpectedToken': lambda c: lark_tok(c.formula.t),
                'pkg.UnexpectedCharacters': lambda c: lark_chr(c.formula.t),
                'TypeError': lambda c: z3.And(z3.Not(lark_tok(c.formula.t)), z3.Not(lark_chr(c.formula.t)), z3.Not(is_tag(parsed(c), *STATE_TAGS)))},
        touches=set(TOUCH), hints={'dict_kind_default': 'fdict', 'path': 'modelcheck'}, owner='C01',
        note='text formula, default parser, F=None: the answer is sat of the formula object the parser returns (which object that is: C09/C10, bounded); '
             'parse errors propagate as the package\'s ParserError subclasses'))

    # -- modelcheck with fairness constraints: FRAME and SAFETY only (C07/C15/C19) --------------------
    # (what it returns is decided by the bounded check: the fair-state label is wrong on the pinned
    #  tree, KF-C15-1, and the reduction itself is unsound, KF-C15-2)
    def mcf_requires(c):
        h0, k, f = c.h0, c.kripke.t, c.formula.t
        r = z3.Int('r!mf')
        g = z3.Const('g!mf', F)
        lb = X('l')
        out = [('kripke_wf', wfK(h0, k)),
               ('no_None_state', z3.Not(V(h0, k)[hp.NONE_H])),
               ('constraints_are_sets', z3.ForAll([r], z3.Implies(c.F.x.mem[r], z3.And(r >= 0, r < h0.alloc)))),
               ('objects_of_state_classes_are_wf', z3.Implies(is_tag(f, *STATE_TAGS), wfS(f)))]
        if c.side == 'callee':
            # the fairness rewriting returns a documented CTL state formula (C08/C15, bounded)
            out.append(('memo_range_definition', z3.And(rng_axioms())))
            out.append(('non_fair_rewriting_keeps_grammar',
                        z3.ForAll([g, lb], z3.Implies(wfS(g), wfS(fm.nonfair(g, lb))), patterns=[fm.nonfair(g, lb)])))
        return out

    def mcf_ensures(c):
        s = X('s')
        R = c.h1.set_of(c.res.t)
        return [('only_states', z3.ForAll([s], z3.Implies(R[s], V(c.h0, c.kripke.t)[s]))),
                ('result_is_fresh', z3.And(c.res.t >= c.h0.alloc, c.res.t < c.h1.alloc))]

    reg(Contract(
        'CTL.modelcheck(fair)', 'ctl', [('kripke', 'kripke'), ('formula', 'F'), ('parser', 'none'), ('F', 'iterRefSets')], ret='set',
        requires=mcf_requires, ensures=mcf_ensures,
        raises={'TypeError': lambda c: z3.Not(is_tag(c.formula.t, *STATE_TAGS))},
        touches={'sets', 'fd', 'fv', 'dd', 'dv', 'rels', 'fld__next', 'fld__labels', 'fld_S0'},
        hints={'dict_kind_default': 'fdict', 'path': 'modelcheck'}, owner='C15',
        note='object formula, F = a container of sets: frame and safety only'))

    # -- _checkEG ---------------------------------------------------------------------------------
    # The code builds G' = reversed( K restricted to phi-states ), takes the components of G' that
    # contain a cycle (more than one node, or a self loop), and returns what G' reaches from them.
    # Proof: soundness by the greatest-fixpoint principle at Z := result (every node of the result
    # satisfies phi and has a K-successor in the result); completeness by the finite-structure
    # lemma (every EG-state reaches, through phi-states, a node on a phi-cycle), the ASSUMED contract
    # of compute_SCCs and induction on the closure.  Trusted: see run.TRUSTED['C01'].
    def eg_skolems(c):
        c.sk['Ephi'] = hp.fresh('E_phi', hp.Rel)

    def eg_edge(c):
        h0, k = c.h0, c.kripke.t
        return lambda s, d: edge(h0, k, s, d)

    def eg_requires(c):
        out = common_requires(c, lambda f: z3.And(is_tag(f, 'E'), is_tag(kid0(f), 'G')))
        if c.side == 'callee':
            h0, k = c.h0, c.kripke.t
            out += eg_trusted(c.formula.t, eg_edge(c), c.sk['Ephi'], lambda a, b: succ(h0, k, a)[b])
        return out

    def eg_scc_hint(cc, c, path):
        cc.sk['scc'] = c
        return []

    def eg_reach_hint(cc, c, path):
        cc.sk['reach'] = c
        return []

    def eg_l1(lc):
        c, h, he = lc.c, lc.h, lc.h_entry
        scc = c.sk['scc']
        E, hS, yR = scc.sk['E'], scc.h1, scc.yR
        sg = lc.env['subgraph'].t
        A = h.set_of(lc.env['T'].t)
        r = z3.Int('r!eg')
        x, y, u, a, b = X(), X('y'), X('u'), X('a'), X('b')
        C = lambda q: hS.set_of(q)     # noqa
        return loop_common(lc, acc='T') + [
            ('acc_is_not_a_component', z3.Not(yR[lc.env['T'].t])),
            ('components_unchanged', z3.ForAll([r], z3.Implies(yR[r], h.set_of(r) == C(r)))),
            ('subgraph_edges', hp.FA([a, b], edge(h, sg, a, b) == E[a, b], [succ(h, sg, a)[b], E[a, b]])),
            ('subgraph_wf', wfG(h, sg)),
            ('T_sound', z3.ForAll([x], z3.Implies(A[x], z3.And(V(h, sg)[x], z3.Exists([u], z3.And(A[u], E[u, x])))))),
            ('T_complete_so_far', z3.ForAll([r, x, y], z3.Implies(
                z3.And(lc.seen[r], C(r)[x], C(r)[y], z3.Or(x != y, E[x, x])), A[x]))),
        ]

    def eg_view(c, path):
        f, k = c.formula.t, c.kripke.t
        if 'T' not in path.env:
            raise KeyError('memo hit: no cut needed')
        scc, rc = c.sk['scc'], c.sk['reach']
        return f, k, kid0(kid0(f)), c.sk['Ephi'], scc.sk['E'], c.h1.set_of(c.res.t)

    def eg_cut_converse_edges(c, path):
        f, k, phi, Ep, E, R = eg_view(c, path)
        a, b = hp._a, hp._b
        return z3.ForAll([a, b], E[a, b] == Ep[b, a])

    def eg_cut_converse_instance(c, path):
        f, k, phi, Ep, E, R = eg_view(c, path)
        return hp.RTC_CONVERSE, [E, Ep]

    def eg_cut_converse_closure(c, path):
        f, k, phi, Ep, E, R = eg_view(c, path)
        x, y = X(), X('y')
        return z3.ForAll([x, y], hp.rtc(E)[x, y] == hp.rtc(Ep)[y, x], patterns=[hp.rtc(E)[x, y], hp.rtc(Ep)[y, x]])

    def eg_cut_post_phi(c, path):
        f, k, phi, Ep, E, R = eg_view(c, path)
        s = X('s')
        return z3.ForAll([s], z3.Implies(R[s], sat(phi)[s]), patterns=[R[s]])

    def eg_cut_post_succ(c, path):
        # every node of the result has a K-successor in the result (the predecessor in G' that `justified` names, or
        # the one the loop invariant T_sound gives for the start nodes)
        f, k, phi, Ep, E, R = eg_view(c, path)
        s, d = X('s'), X('d')
        return z3.ForAll([s], z3.Implies(R[s], z3.Exists([d], z3.And(edge(c.h0, c.kripke.t, s, d), R[d]))), patterns=[R[s]])

    def eg_cut_postfix(c, path):
        # the antecedent of the greatest-fixpoint principle at Z := result (same syntax)
        f, k, phi, Ep, E, R = eg_view(c, path)
        inst = z3.substitute_vars(eg_gfp_schema(c.formula.t, eg_edge(c)).body(), R)
        return inst.arg(0)

    def eg_cut_gfp_instance(c, path):
        f, k, phi, Ep, E, R = eg_view(c, path)
        return eg_gfp_schema(c.formula.t, eg_edge(c)), [R]

    def eg_cut_sound(c, path):
        f, k, phi, Ep, E, R = eg_view(c, path)
        s = X('s')
        return z3.ForAll([s], z3.Implies(R[s], sat(f)[s]), patterns=[R[s]])

    def eg_cut_cycle_nodes(c, path):
        f, k, phi, Ep, E, R = eg_view(c, path)
        s = X('s')
        return z3.ForAll([s], z3.Implies(sat(f)[s], R[cyc_node(f, s)]), patterns=[sat(f)[s]])

    def eg_cut_closed(c, path):
        # the antecedent of the induction principle at (E, Z := result), same syntax
        f, k, phi, Ep, E, R = eg_view(c, path)
        return z3.substitute_vars(hp.RTC_INDUCTION.body(), R, E).arg(0)

    def eg_cut_induction_instance(c, path):
        f, k, phi, Ep, E, R = eg_view(c, path)
        return hp.RTC_INDUCTION, [E, R]

    def eg_cut_component_has_cycle(c, path):
        # loop body: two different members x, y of a component: the last step of a path from y to x
        # starts inside the component (maximality) - so x has a predecessor in the component
        scc = c.sk['scc']
        E, hS = scc.sk['E'], scc.h1
        C = hS.set_of(path.env['scc'].t)
        x, y = X(), X('y')
        l = hp.rtc_last(E, y, x)
        return z3.ForAll([x, y], z3.Implies(z3.And(C[x], C[y], x != y), z3.And(C[l], E[l, x])),
                         patterns=[z3.MultiPattern(C[x], C[y])])

    def eg_cut_complete(c, path):
        f, k, phi, Ep, E, R = eg_view(c, path)
        s = X('s')
        return z3.ForAll([s], z3.Implies(sat(f)[s], R[s]), patterns=[sat(f)[s]])

    EG_CUTS = [eg_cut_converse_edges, eg_cut_converse_instance, eg_cut_converse_closure, eg_cut_post_phi, eg_cut_post_succ, eg_cut_postfix,
               eg_cut_gfp_instance, eg_cut_sound, eg_cut_cycle_nodes, eg_cut_closed, eg_cut_induction_instance, eg_cut_complete]

    reg(Contract(
        '_checkEG', 'ctl', PARAMS, ret='set',
        requires=eg_requires, skolems=eg_skolems,
        ensures=common_ensures, frame=memo_frame, may_write=memo_may_write,
        touches=TOUCH, loop_touches={1: {'sets'}}, loops={1: eg_l1},
        hints={'call': {'compute_SCCs': eg_scc_hint, 'DiGraph.get_reachable_set_from': eg_reach_hint},
               'schemas': ('gfp_principle', 'rtc_induction', 'rtc_converse'),
               'heavy_requires': ('kripke_wf', 'Ephi_def', 'finite_structure_cycle_lemma', 'memo_inv'),
               'slice_more_main': r'^(loop1:(T_sound|T_complete|subgraph_|components_)|frame:unchanged:)',
               # facts about the constructed graph, the components and the accumulator do not need the semantics axioms
               'slice_heavy': r':(subgraph_|components_|T_sound|T_complete|acc_is_not|memo_inv:preserved|since_entry|:cut([134589]|1[012])$)',
               'cuts': {'ensures:result_is_sat': EG_CUTS, 'ensures:memo_inv': EG_CUTS,
                        'loop1:T_sound:preserved': [eg_cut_component_has_cycle]}}, owner='C01'))


def install_ctls(E):
    """CTLS/model_checking.py: the fresh-label helper (C03/C19)"""
    from .contracts_kripke import wfK as _wfK, Lab as _Lab

    def ens(c):
        s = X('s')
        return [('not_a_label_of_the_structure',
                 z3.ForAll([s], z3.Implies(V(c.h0, c.kripke.t)[s], z3.Not(_Lab(c.h0, c.kripke.t, s)[c.res.t]))))]

    def l1(lc):
        c, h = lc.c, lc.h
        s, a = X('s'), X('a')
        A = h.set_of(lc.env['atoms'].t)
        return [('atoms_are_all_labels', z3.ForAll([a], A[a] == z3.Exists([s], z3.And(V(c.h0, c.kripke.t)[s], _Lab(c.h0, c.kripke.t, s)[a])))),
                ('alloc', h.alloc >= lc.h_entry.alloc)] + frame(c.h0, h, c.h0.alloc)

    E.register(Contract(
        '_get_a_new_atomic_proposition_for', 'ctls', [('kripke', 'kripke'), ('formula', 'F')], ret='H',
        requires=lambda c: [('kripke_wf', _wfK(c.h0, c.kripke.t))], ensures=ens,
        loops={1: l1}, loop_touches={1: set()}, touches={'sets'}, hints={'format_is_H': True}, owner='C03',
        note='termination of the renaming loop is not claimed; freshness w.r.t. the atoms of the FORMULA is not ensured by the code (KF-C19-2)'),
        'CTLS/model_checking.py')
