"""Sidecar contracts for pyModelChecking/CTL/model_checking.py (property C01;
C07/C19 use the frame and safety obligations).  Top-level postcondition
`result = sat(K, formula)` is the statement of C01; `sat` is axiomatised by the
documented semantics in fixpoint form (vf/pyvc/formula.py, trusted base)."""
import z3

from . import heap as hp
from .heap import H, F
from .engine import Contract
from .contracts_graph import X, V, edge, frame
from .contracts_kripke import wfK, Lab
from . import formula as fm
from .formula import tag, kid0, kid1, iskid, sat, wfS, is_tag, restr

FILE = 'CTL/model_checking.py'
I = z3.IntSort()

# the range of a memo table (set of the references it stores), skolemised like isend
rng = z3.Function('rng', hp.SetF, z3.ArraySort(F, I), hp.SetR)
rng_w = z3.Function('rng_witness', hp.SetF, z3.ArraySort(F, I), I, F)


def rng_axioms():
    D = z3.Const('D!rg', hp.SetF)
    Vv = z3.Const('V!rg', z3.ArraySort(F, I))
    g = z3.Const('g!rg', F)
    r, r0 = z3.Const('r!rg', I), z3.Const('r0!rg', I)
    upd = rng(z3.Store(D, g, True), z3.Store(Vv, g, r0))
    return [
        z3.ForAll([D, Vv, g], z3.Implies(D[g], rng(D, Vv)[Vv[g]]), patterns=[z3.MultiPattern(D[g], rng(D, Vv))]),
        z3.ForAll([D, Vv, r], z3.Implies(rng(D, Vv)[r], z3.And(D[rng_w(D, Vv, r)], Vv[rng_w(D, Vv, r)] == r)),
                  patterns=[rng(D, Vv)[r]]),
        z3.ForAll([D, Vv, g, r0, r], z3.Implies(upd[r], z3.Or(rng(D, Vv)[r], r == r0)), patterns=[upd[r]]),
    ]


def Rng(h, L):
    return rng(h.fdom(L), h.fval(L))


def memo_inv(h, L):
    g = z3.Const('g!mi', F)
    s = X('s')
    return z3.And(
        z3.ForAll([g, s], z3.Implies(h.fdom(L)[g], h.set_of(h.fval(L)[g])[s] == sat(g)[s])),
        z3.ForAll([g], z3.Implies(h.fdom(L)[g], z3.And(h.fval(L)[g] >= 0, h.fval(L)[g] < h.alloc))))


def memo_grows(h0, h1, L):
    g = z3.Const('g!mg', F)
    r = z3.Const('r!mg', I)
    return [
        # (an entry may be overwritten by a new set with the same meaning: the Boolean and the
        #  rewriting branches of _checkStateFormula store without testing membership first)
        ('memo_keeps_keys', z3.ForAll([g], z3.Implies(h0.fdom(L)[g], h1.fdom(L)[g]))),
        ('memo_new_values_fresh', z3.ForAll([r], z3.Implies(Rng(h1, L)[r], z3.Or(Rng(h0, L)[r], r >= h0.alloc)))),
    ]


def ctx_axioms(c):
    h0, k = c.h0, c.kripke.t
    return fm.syntax_axioms() + rng_axioms() + fm.semantic_axioms(
        V(h0, k), lambda s, d: edge(h0, k, s, d), lambda s: Lab(h0, k, s))


def common_requires(c, *tags):
    h0, k, f, L = c.h0, c.kripke.t, c.formula.t, c.L.t
    out = [('kripke_wf', wfK(h0, k)),
           ('no_None_state', z3.Not(V(h0, k)[hp.NONE_H])),       # KF-C19-1: labels(None) is the union
           ('formula_wf', wfS(f)),
           ('memo_valid', z3.And(L >= 0, L < h0.alloc)),
           ('memo_inv', memo_inv(h0, L))]
    if tags:
        out.append(('formula_kind', tags[0](f)))
    if c.side == 'callee':
        out.append(('documented_semantics', z3.And(ctx_axioms(c))))
    return out


def common_ensures(c):
    h0, h1, f, L = c.h0, c.h1, c.formula.t, c.L.t
    s = X('s')
    R = h1.set_of(c.res.t)
    return [
        ('result_is_sat', z3.ForAll([s], R[s] == sat(f)[s])),
        ('result_valid', z3.And(c.res.t >= 0, c.res.t < h1.alloc)),
        ('result_in_memo_or_fresh', z3.Or(Rng(h1, L)[c.res.t], c.res.t >= h0.alloc)),
        ('memo_inv', memo_inv(h1, L)),
    ] + memo_grows(h0, h1, L)


def memo_frame(c):
    L = c.L.t
    own = lambda r: r == L         # noqa
    return frame(c.h0, c.h1, c.h0.alloc, {'fd': own, 'fv': own})


def memo_may_write(c, comp, ref):
    if comp in ('fd', 'fv'):
        return ref == c.L.t
    return None


TOUCH = {'sets', 'fd', 'fv'}
PARAMS = [('kripke', 'kripke'), ('formula', 'F'), ('L', 'fdict')]


def loop_common(lc, acc='Lformula'):
    """facts every labelling loop keeps: the accumulator is a set allocated by this
    activation and not referenced by the memo table; the memo table and everything
    allocated before the loop are unchanged except the accumulator"""
    c, h, he = lc.c, lc.h, lc.h_entry
    L = c.L.t
    A = lc.env[acc].t
    own = lambda r: r == A         # noqa
    return [
        ('acc_fresh', z3.And(A >= c.h0.alloc, A < he.alloc)),
        ('acc_not_in_memo', z3.Not(Rng(h, L)[A])),
        ('memo_inv', memo_inv(h, L)),
        ('alloc', h.alloc >= he.alloc),
    ] + [('since_entry:' + n, f) for n, f in memo_grows(c.h0, h, L)] \
      + frame(he, h, he.alloc, {'sets': own})


def complete_clause(lc, A, phi):
    s, d = X('s'), X('d')
    body = z3.Implies(z3.And(lc.seen[s, d], sat(phi)[d]), A[s])
    q = z3.simplify(A[s])
    if z3.is_app(q) and q.decl().kind() == z3.Z3_OP_SELECT and not hp._has_binder(A[s]):
        return z3.ForAll([s, d], body, patterns=[z3.MultiPattern(A[s], sat(phi)[d])])
    return z3.ForAll([s, d], body)


def install(E):
    from .formula import FormulaExt
    E.ext.append(FormulaExt())

    def reg(k):
        E.register(k, FILE)

    # -- _checkAtomicProposition -------------------------------------------------
    def ap_l1(lc):
        c, h = lc.c, lc.h
        k, f = c.kripke.t, c.formula.t
        s = X('s')
        A = h.set_of(lc.env['Lformula'].t)
        return loop_common(lc) + [
            ('partial', z3.ForAll([s], A[s] == z3.And(lc.seen[s], Lab(c.h0, k, s)[fm.apname(f)]))),
        ]

    reg(Contract(
        '_checkAtomicProposition', 'ctl', PARAMS, ret='set',
        requires=lambda c: common_requires(c, lambda f: is_tag(f, 'AtomicProposition')),
        ensures=common_ensures, frame=memo_frame, may_write=memo_may_write,
        touches=TOUCH, loop_touches={1: {'sets'}}, loops={1: ap_l1}, owner='C01'))

    # -- _checkNot -----------------------------------------------------------------
    def not_l1(lc):
        c, h = lc.c, lc.h
        f = c.formula.t
        s = X('s')
        A = h.set_of(lc.env['Lformula'].t)
        P = h.set_of(lc.env['Lphi'].t)
        return loop_common(lc) + [
            ('operand', z3.ForAll([s], P[s] == sat(kid0(f))[s])),
            ('operand_is_other_set', lc.env['Lphi'].t != lc.env['Lformula'].t),
            ('partial', z3.ForAll([s], A[s] == z3.And(lc.seen[s], z3.Not(sat(kid0(f))[s])))),
        ]

    reg(Contract(
        '_checkNot', 'ctl', PARAMS, ret='set',
        requires=lambda c: common_requires(c, lambda f: is_tag(f, 'Not')),
        ensures=common_ensures, frame=memo_frame, may_write=memo_may_write,
        touches=TOUCH, loop_touches={1: {'sets'}}, loops={1: not_l1}, owner='C01'))

    # -- _checkEX ---------------------------------------------------------------------
    def ex_l1(lc):
        c, h = lc.c, lc.h
        k, f = c.kripke.t, c.formula.t
        s, d = X('s'), X('d')
        phi = kid0(kid0(f))
        A = h.set_of(lc.env['Lformula'].t)
        P = h.set_of(lc.env['Lphi'].t)
        return loop_common(lc) + [
            ('operand', z3.ForAll([s], P[s] == sat(phi)[s])),
            ('operand_is_other_set', lc.env['Lphi'].t != lc.env['Lformula'].t),
            ('sound', z3.ForAll([s], z3.Implies(A[s], sat(f)[s]))),
            ('complete_so_far', complete_clause(lc, A, phi)),
        ]

    reg(Contract(
        '_checkEX', 'ctl', PARAMS, ret='set',
        requires=lambda c: common_requires(c, lambda f: z3.And(is_tag(f, 'E'), is_tag(kid0(f), 'X'))),
        ensures=common_ensures, frame=memo_frame, may_write=memo_may_write,
        touches=TOUCH, loop_touches={1: {'sets'}}, loops={1: ex_l1}, owner='C01'))

    # -- _checkOr ------------------------------------------------------------------------
    def or_l1(lc):
        c, h = lc.c, lc.h
        f = c.formula.t
        s = X('s')
        g = z3.Const('g!or', F)
        A = h.set_of(lc.env['Lformula'].t)
        return or_common(lc) + [
            ('sound', z3.ForAll([s], z3.Implies(A[s], sat(f)[s]))),
            ('complete_so_far', z3.ForAll([g, s], z3.Implies(z3.And(lc.seen[g], sat(g)[s]), A[s]))),
        ]

    def or_common(lc):
        # like loop_common, but the outer loop's body calls the labelling recursively, so the
        # heap components the callee touches are havocked as well
        c, h, he = lc.c, lc.h, lc.h_entry
        L = c.L.t
        A = lc.env['Lformula'].t
        own = lambda r: r == A         # noqa
        ownL = lambda r: r == L        # noqa
        return [
            ('acc_fresh', z3.And(A >= c.h0.alloc, A < he.alloc)),
            ('acc_not_in_memo', z3.Not(Rng(h, L)[A])),
            ('memo_inv', memo_inv(h, L)),
            ('alloc', h.alloc >= he.alloc),
        ] + [('since_entry:' + n, f) for n, f in memo_grows(c.h0, h, L)] \
          + frame(c.h0, h, c.h0.alloc, {'fd': ownL, 'fv': ownL})

    def or_l2(lc):
        c, h = lc.c, lc.h
        f = c.formula.t
        s = X('s')
        g = z3.Const('g!or', F)
        A = h.set_of(lc.env['Lformula'].t)
        sf = lc.env['sf'].t
        outer = lc.outer[1]
        return or_common(lc) + [
            ('operand_is_kid', z3.And(iskid(f, sf), wfS(sf))),
            ('iterated_is_not_acc', lc.coll.src[1] != lc.env['Lformula'].t),
            ('iterated_is_sat', z3.ForAll([s], lc.coll.mem[s] == sat(sf)[s])),
            ('sound', z3.ForAll([s], z3.Implies(A[s], sat(f)[s]))),
            ('complete_so_far', z3.ForAll([g, s], z3.Implies(z3.And(outer[g], sat(g)[s]), A[s]))),
            ('current_so_far', z3.ForAll([s], z3.Implies(lc.seen[s], A[s]))),
        ]

    reg(Contract(
        '_checkOr', 'ctl', PARAMS, ret='set',
        requires=lambda c: common_requires(c, lambda f: is_tag(f, 'Or')),
        ensures=common_ensures, frame=memo_frame, may_write=memo_may_write,
        touches=TOUCH, loop_touches={1: TOUCH, 2: {'sets'}}, loops={1: or_l1, 2: or_l2}, owner='C01'))

    # -- _checkStateFormula (dispatch; contract also used for every recursive call) --------
    reg(Contract(
        '_checkStateFormula', 'ctl', PARAMS, ret='set',
        requires=lambda c: common_requires(c),
        ensures=common_ensures, frame=memo_frame, may_write=memo_may_write,
        touches=TOUCH, owner='C01'))

    # -- _checkEU / _checkEG: contracts stated; bodies verified separately (see DESIGN.md) ------
    reg(Contract(
        '_checkEU', 'ctl', PARAMS, ret='set',
        requires=lambda c: common_requires(c, lambda f: z3.And(is_tag(f, 'E'), is_tag(kid0(f), 'U'))),
        ensures=common_ensures, frame=memo_frame, may_write=memo_may_write,
        touches=TOUCH, owner='C01', assumed=True,
        note='body not yet under proof: bounded stand-in only'))
    reg(Contract(
        '_checkEG', 'ctl', PARAMS, ret='set',
        requires=lambda c: common_requires(c, lambda f: z3.And(is_tag(f, 'E'), is_tag(kid0(f), 'G'))),
        ensures=common_ensures, frame=memo_frame, may_write=memo_may_write,
        touches=TOUCH, owner='C01', assumed=True,
        note='body relies on compute_SCCs (bounded, C12) and TB4; bounded stand-in only'))
