"""Engine: call/attribute resolution against contracts, verification of one
function, discharge of obligations (z3, cvc5 fallback through SMT-LIB)."""
import ast
import os
import subprocess
import tempfile
import time

import z3

from . import heap as hp
from .heap import SV, Coll, Heap, H, F
from .engine import (Contract, CallCtx, Path, Obligation, Source, Executor,
                     Unsupported, EXC_PARENTS, I)


class Engine(object):
    def __init__(self, repo, timeout_ms=20000, seed=0):
        self.src = Source(repo)
        self.contracts = {}        # qualname -> Contract
        self.files = {}            # module key -> relative path
        self.timeout_ms = timeout_ms
        self.seed = seed
        self.ext = []              # extension objects (language layer, bdd layer)
        self.global_axioms = [hp.pick_axiom(), hp.empty_rel_axiom()] + hp.isend_axioms()
        self.baseline_names = set()
        self.escalations_left = 3

    def register(self, contract, relpath):
        self.contracts[contract.qualname] = contract
        self.files[contract.qualname] = relpath

    # -- name resolution ---------------------------------------------------------
    def global_name(self, k, name):
        if name in ('set', 'dict', 'list', 'len', 'isinstance', 'range', 'iter', 'next', 'super', 'str', 'bool', 'int',
                    'sorted', 'min', 'max', 'sum', 'id', 'print'):
            return SV('func', None, ('builtin', name))
        if name in EXC_PARENTS:
            return SV('func', None, ('exc', name))
        for e in self.ext:
            r = e.global_name(self, k, name)
            if r is not None:
                return r
        # module level functions / classes under contract
        if name in self.contracts:
            return SV('func', None, ('contract', name))
        if name + '.__init__' in self.contracts:
            return SV('func', None, ('ctor', name))
        if name in ('True', 'False'):
            return SV('bool', z3.BoolVal(name == 'True'))
        if name == '__release__':
            return SV('str')
        return None

    # -- attributes --------------------------------------------------------------
    def attribute(self, ex, base, attr, path, node):
        h = path.heap
        if base.ty in ('graph', 'kripke'):
            if attr == '_next':
                return SV('dict', h.field('_next', base.t))
            if attr == '_labels' and base.ty == 'kripke':
                return SV('dict', h.field('_labels', base.t))
            if attr == 'S0' and base.ty == 'kripke':
                return SV('set', h.field('S0', base.t))
            return SV('bound', None, (base, attr))
        if base.ty in ('set', 'list', 'dlist', 'dict', 'fdict', 'keys', 'pairlist', 'str', 'coll', 'reflist', 'refset', 'clist'):
            return SV('bound', None, (base, attr))
        if base.ty == 'super':
            return SV('bound', None, (base, attr))
        for e in self.ext:
            r = e.attribute(self, ex, base, attr, path, node)
            if r is not None:
                return r
        raise Unsupported('attribute .%s of %s at line %d' % (attr, base.ty, node.lineno))

    def set_attribute(self, ex, base, attr, v, path, st):
        h = path.heap
        if base.ty in ('graph', 'kripke') and attr in ('_next', '_labels', 'S0'):
            if (attr == 'S0') != (v.ty == 'set') or (attr != 'S0' and v.ty != 'dict'):
                raise Unsupported('field %s := %s' % (attr, v.ty))
            self.check_write(ex, ('fld_' + attr, base.t), path, st)
            path.heap = h.with_(**{'fld_' + attr: z3.Store(h['fld_' + attr], base.t, v.t)})
            return
        for e in self.ext:
            if e.set_attribute(self, ex, base, attr, v, path, st):
                return
        raise Unsupported('attribute assignment .%s of %s at line %d' % (attr, base.ty, st.lineno))

    def check_write(self, ex, loc, path, st):
        """frame obligation: a write goes to an object allocated during the call,
        or to one the contract's `modifies` names"""
        comp, ref = loc
        c = ex.ctx
        allowed = ref >= c.h0.alloc
        if ex.k.may_write is not None:
            extra = ex.k.may_write(c, comp, ref)
            if extra is not None:
                allowed = z3.Or(allowed, extra)
        ex.oblige('frame:write_%s:L%d' % (comp, st.lineno), path, allowed, ('frame',), st.lineno)

    def equal(self, ex, a, b, path, node):
        if a.ty == 'H' and b.ty == 'H':
            return a.t == b.t
        if a.ty == 'int' and b.ty == 'int':
            return a.t == b.t
        if a.ty == 'bool' and b.ty == 'bool':
            return a.t == b.t
        if a.ty == 'bool' and b.ty == 'int' and z3.is_int_value(b.t):
            # Python: True == 1, False == 0
            v_ = b.t.as_long()
            return a.t if v_ == 1 else (z3.Not(a.t) if v_ == 0 else z3.BoolVal(False))
        for e in self.ext:
            r = e.equal(self, ex, a, b, path, node)
            if r is not None:
                return r
        raise Unsupported('== between %s and %s at line %d' % (a.ty, b.ty, node.lineno))

    def member_ext(self, ex, a, b, path, node):
        for e in self.ext:
            r = e.member(self, ex, a, b, path, node)
            if r is not None:
                return r
        return None

    def dict_comprehension(self, ex, e, path):
        """{k: v for k, v in d.items() if cond}  with v a set ref"""
        if len(e.generators) != 1:
            raise Unsupported('nested dict comprehension')
        g = e.generators[0]
        src = ex.ev(g.iter, path)
        coll = ex.as_coll(src, path)
        if coll.kind != 'item':
            raise Unsupported('dict comprehension over %s' % coll.kind)
        sub = path.fork()
        k = hp.fresh('k!dc', H)
        ex.bind_target(g.target, SV('item', (k, path.heap.dval(coll.pair_second)[k])), sub)
        sub.pc.append(coll.mem[k])
        cond = z3.BoolVal(True)
        for c in g.ifs:
            cond = z3.And(cond, ex.truth(ex.ev(c, sub), sub))
        key = ex.ev(e.key, sub)
        val = ex.ev(e.value, sub)
        if key.ty != 'H' or val.ty != 'set' or not z3.eq(key.t, k):
            raise Unsupported('dict comprehension shape')
        r, h = path.heap.new()
        path.heap = h.with_(dd=z3.Store(h['dd'], r, z3.Lambda([k], z3.And(coll.mem[k], cond))),
                            dv=z3.Store(h['dv'], r, z3.Lambda([k], val.t)))
        return SV('dict', r)

    # -- calls ---------------------------------------------------------------------
    def call(self, ex, e, path):
        f = e.func
        # super(Class, self).method(...)
        if isinstance(f, ast.Attribute) and isinstance(f.value, ast.Call) and isinstance(f.value.func, ast.Name) \
                and f.value.func.id == 'super':
            cls = f.value.args[0].id
            for x_ in self.ext:
                r_ = x_.super_call(self, ex, cls, f.attr, e, path)
                if r_ is not None:
                    return r_
            recv = ex.ev(f.value.args[1], path)
            base = self.base_of(cls)
            args = [ex.ev(a, path) for a in e.args]
            return self.call_contract(ex, '%s.%s' % (base, f.attr), [recv] + args, {}, path, e)
        fn = ex.ev(f, path)
        kwargs = {}
        for kw in e.keywords:
            if kw.arg is None:
                raise Unsupported('**kwargs')
            kwargs[kw.arg] = ex.ev(kw.value, path)
        if any(isinstance(a, ast.Starred) for a in e.args):
            for x in self.ext:
                r = x.star_call(self, ex, fn, e, path)
                if r is not None:
                    return r
            raise Unsupported('*args call at line %d' % e.lineno)
        args = [ex.ev(a, path) for a in e.args]
        if fn.ty == 'func':
            kind, name = fn.x[0], fn.x[1]
            if kind == 'builtin':
                return self.builtin(ex, name, args, kwargs, path, e)
            if kind == 'exc':
                return SV('exc', None, name)
            if kind == 'contract':
                return self.call_contract(ex, name, args, kwargs, path, e)
            if kind == 'ctor':
                return self.construct(ex, name, args, kwargs, path, e)
            if kind == 'inline':
                return self.inline(ex, fn.x[1], args, kwargs, path, e)
            for x in self.ext:
                r = x.call_func(self, ex, fn, args, kwargs, path, e)
                if r is not None:
                    return r
        if fn.ty == 'lambda':
            # the body is evaluated in the CURRENT environment of the caller (Python's late binding
            # of free variables), with the parameters bound on top
            lam = fn.x
            names = [a_.arg for a_ in lam.args.args]
            if len(names) != len(args):
                raise Unsupported('lambda arity')
            saved = {n_: path.env.get(n_) for n_ in names}
            for n_, v_ in zip(names, args):
                path.env[n_] = v_
            try:
                return ex.ev(lam.body, path)
            finally:
                for n_, v_ in saved.items():
                    if v_ is None:
                        path.env.pop(n_, None)
                    else:
                        path.env[n_] = v_
        if fn.ty == 'bound':
            base, attr = fn.x
            return self.method(ex, base, attr, args, kwargs, path, e)
        for x in self.ext:
            r = x.call_value(self, ex, fn, args, kwargs, path, e)
            if r is not None:
                return r
        raise Unsupported('call of %s at line %d' % (fn.ty, e.lineno))

    def base_of(self, cls):
        return {'Kripke': 'DiGraph', '_Tableu': 'DiGraph'}.get(cls, cls)

    def builtin(self, ex, name, args, kwargs, path, e):
        h = path.heap
        if name == 'set' and len(args) == 1 and args[0].ty == 'clist' and args[0].x and \
                all(a.ty in ('int', 'bool') and (z3.is_int_value(a.t) or z3.is_true(a.t) or z3.is_false(a.t)) for a in args[0].x):
            # a set of integer / Boolean literals (True == 1, False == 0)
            vals = set()
            for a in args[0].x:
                vals.add(int(a.t.as_long()) if a.ty == 'int' else (1 if z3.is_true(a.t) else 0))
            return SV('constset', None, vals)
        if name == 'set':
            if not args and ex.k.hints.get('set_kind_default') == 'refset':
                r_, h_ = path.heap.new()
                path.heap = h_.with_(refsets=z3.Store(h_['refsets'], r_, z3.K(I, z3.BoolVal(False))),
                                     b_node=z3.Store(h_['b_node'], r_, z3.BoolVal(False)))
                return SV('refset', r_)
            if not args:
                return ex.alloc_set(path, hp.empty_set())
            a = args[0]
            if a.ty == 'anyval':
                d, key = a.x
                ex.may_raise('TypeError', z3.Not(d.x['ok'][key]), path, e)
                return ex.alloc_set(path, d.x['val'][key])
            if a.ty == 'clist':
                if all(v.ty == 'H' for v in a.x):
                    s = hp.empty_set()
                    for v in a.x:
                        s = z3.Store(s, v.t, True)
                    return ex.alloc_set(path, s)
                raise Unsupported('set of a literal list of %s' % [v.ty for v in a.x])
            c = ex.as_coll(a, path, 'copy')
            if c.kind != 'H':
                raise Unsupported('set() of a collection of %s' % c.kind)
            return ex.alloc_set(path, c.mem)
        if name == 'list':
            if not args:
                return SV('clist', None, [])
            c = ex.as_coll(args[0], path, 'copy')
            if c.kind == 'H':
                return ex.alloc_set(path, c.mem, 'list')
            if c.kind == 'pair':
                return ex.alloc_pairlist(path, c.mem)
            raise Unsupported('list() of a collection of %s' % c.kind)
        if name == 'dict':
            if args or kwargs:
                raise Unsupported('dict(...) with arguments')
            return self.new_dict(ex, path, e)
        if name == 'len':
            a = args[0]
            n = hp.fresh('len', I)
            path.pc.append(n >= 0)
            if a.ty in ('set', 'list', 'dlist'):
                x = hp.fresh('x!l', H)
                S = h.set_of(a.t)
                path.pc.append((n > 0) == hp.nonempty(S))
                # len == 1 means a singleton
                y = hp.fresh('y!l', H)
                path.pc.append(z3.Implies(n == 1, z3.ForAll([x, y], z3.Implies(z3.And(S[x], S[y]), x == y)))
                               if a.ty in ('set', 'dlist') else z3.BoolVal(True))
                if a.ty in ('set', 'dlist'):
                    path.pc.append(z3.Implies(z3.Exists([x, y], z3.And(S[x], S[y], x != y)), n > 1))
                    # without repetitions, more than one position means two different elements
                    e1, e2 = hp.fresh('el1', H), hp.fresh('el2', H)
                    path.pc.append(z3.Implies(n > 1, z3.And(S[e1], S[e2], e1 != e2)))
                    path.ghosts['len_witnesses'] = (e1, e2)
                return SV('int', n)
            if a.ty == 'clist':
                return SV('int', z3.IntVal(len(a.x)))
            for x_ in self.ext:
                r = x_.builtin_len(self, ex, a, n, path)
                if r is not None:
                    return r
            raise Unsupported('len of %s' % a.ty)
        if name == 'range':
            if len(args) == 1 and args[0].ty == 'int' and z3.is_int_value(args[0].t):
                return SV('clist', None, [SV('int', z3.IntVal(i)) for i in range(args[0].t.as_long())])
            raise Unsupported('range with a symbolic bound')
        if name == 'isinstance':
            for x_ in self.ext:
                r = x_.isinstance(self, ex, args[0], args[1], path, e)
                if r is not None:
                    return r
            a, cls = args
            if a.ty == 'anydict':
                if cls.ty == 'func' and cls.x[1] == 'dict':
                    return SV('bool', a.x['isdict'])
            if cls.ty == 'func' and cls.x[0] in ('builtin', 'ctor'):
                return SV('bool', z3.BoolVal(self.static_isinstance(a, cls.x[1])))
            if cls.ty == 'type':
                return SV('bool', z3.BoolVal(self.static_isinstance(a, cls.x)))
            raise Unsupported('isinstance(%s, %s) at line %d' % (a.ty, cls.ty, e.lineno))
        if name == 'iter':
            return SV('iter', None, args[0])
        if name == 'next':
            it = args[0]
            if it.ty == 'iter':
                c = ex.as_coll(it.x, path)
                nonempty = hp.nonempty(c.mem)
                ex.may_raise('StopIteration', z3.Not(nonempty), path, e)
                v = hp.fresh('first', H)
                path.pc.append(c.mem[v])
                return SV('H', v)
            raise Unsupported('next of %s' % it.ty)
        if name in ('str', 'print'):
            return SV('str')
        if name == 'int' and args and args[0].ty == 'int':
            return args[0]
        if name == 'bool':
            return SV('bool', ex.truth(args[0], path))
        raise Unsupported('builtin %s at line %d' % (name, e.lineno))

    def new_dict(self, ex, path, e):
        # the static kind of a dict literal is decided by the sidecar (default H -> set)
        kind = ex.k.hints.get('dict_kind', {}).get(e.lineno, ex.k.hints.get('dict_kind_default', 'dict'))
        if kind == 'fdict':
            return ex.alloc_fdict(path)
        if kind in ('refdict', 'refdict2'):
            r, h = path.heap.new()
            path.heap = h.with_(rd_dom=z3.Store(h['rd_dom'], r, z3.K(I, z3.BoolVal(False))),
                                b_node=z3.Store(h['b_node'], r, z3.BoolVal(False)))
            return SV(kind, r)
        return ex.alloc_dict(path)

    def static_isinstance(self, sv, clsname):
        table = {'dict': ('dict', 'fdict'), 'DiGraph': ('graph', 'kripke'), 'Kripke': ('kripke',),
                 'str': ('str',), 'bool': ('bool',), 'int': ('int', 'bool'), 'set': ('set',), 'list': ('list', 'clist', 'pairlist')}
        if clsname not in table:
            raise Unsupported('isinstance against %s' % clsname)
        if sv.ty == 'opt':
            raise Unsupported('isinstance of an optional value')
        if sv.ty == 'any':
            raise Unsupported('isinstance of an untyped value')
        return sv.ty in table[clsname]

    def method(self, ex, base, attr, args, kwargs, path, e):
        h = path.heap
        if base.ty == 'set':
            if attr == 'add' and args[0].ty == 'H':
                self.check_write(ex, ('sets', base.t), path, e)
                path.heap = h.with_(sets=z3.Store(h['sets'], base.t, z3.Store(h.set_of(base.t), args[0].t, True)))
                return hp.NONE
            if attr == 'update':
                c = ex.as_coll(args[0], path, 'update from')
                if c.kind != 'H':
                    raise Unsupported('set.update from %s' % c.kind)
                self.check_write(ex, ('sets', base.t), path, e)
                x = hp.fresh('x!up', H)
                path.heap = h.with_(sets=z3.Store(h['sets'], base.t, ex.name_array(
                    path, z3.Lambda([x], z3.Or(h.set_of(base.t)[x], c.mem[x])))))
                return hp.NONE
        if base.ty == 'refset' and attr == 'add' and args[0].ty in hp.REF_TYPES:
            self.check_write(ex, ('refsets', base.t), path, e)
            path.heap = h.with_(refsets=z3.Store(h['refsets'], base.t, z3.Store(h['refsets'][base.t], args[0].t, True)))
            return hp.NONE
        if base.ty == 'reflist' and attr == 'append' and args[0].ty in hp.REF_TYPES:
            self.check_write(ex, ('refsets', base.t), path, e)
            path.heap = h.with_(refsets=z3.Store(h['refsets'], base.t, z3.Store(h['refsets'][base.t], args[0].t, True)))
            return hp.NONE
        if base.ty == 'reflist' and attr == 'pop' and not args:
            # bag abstraction: an arbitrary element; the remainder is any bag between (old minus that element) and old
            S = h['refsets'][base.t]
            # (choice for THIS set only: a global axiom over every set of references would fire on the
            #  parent sets and caches of the BDD layer)
            xr = z3.Int('x!ne')
            path.pc.append(z3.ForAll([xr], z3.Implies(S[xr], hp.nonemptyR(S)), patterns=[S[xr]]))
            ex.may_raise('IndexError', z3.Not(hp.nonemptyR(S)), path, e)
            v = hp.fresh('popped', I)
            rest = hp.fresh('rest', hp.SetR)
            y = z3.Int('y!pop')
            path.pc.append(S[v])
            path.pc.append(z3.ForAll([y], z3.Implies(rest[y], S[y]), patterns=[rest[y]]))
            path.pc.append(z3.ForAll([y], z3.Implies(z3.And(S[y], y != v), rest[y]), patterns=[S[y]]))
            self.check_write(ex, ('refsets', base.t), path, e)
            path.heap = h.with_(refsets=z3.Store(h['refsets'], base.t, rest))
            return SV(base.x or 'bnode', v)
        if base.ty == 'list':
            if attr == 'append' and args[0].ty == 'H':
                self.check_write(ex, ('sets', base.t), path, e)
                path.heap = h.with_(sets=z3.Store(h['sets'], base.t, z3.Store(h.set_of(base.t), args[0].t, True)))
                return hp.NONE
            if attr == 'pop' and not args:
                # bag abstraction: an arbitrary element; the remainder is any bag
                # between (old minus that element) and old
                x = hp.fresh('x!p', H)
                nonempty = hp.nonempty(h.set_of(base.t))
                ex.may_raise('IndexError', z3.Not(nonempty), path, e)
                v = hp.fresh('popped', H)
                rest = hp.fresh('rest', hp.SetH)
                path.pc.append(h.set_of(base.t)[v])
                path.pc.append(z3.ForAll([x], z3.Implies(rest[x], h.set_of(base.t)[x])))
                path.pc.append(z3.ForAll([x], z3.Implies(z3.And(h.set_of(base.t)[x], x != v), rest[x])))
                self.check_write(ex, ('sets', base.t), path, e)
                path.heap = h.with_(sets=z3.Store(h['sets'], base.t, rest))
                return SV('H', v)
            if attr == 'extend':
                c = ex.as_coll(args[0], path, 'extend from')
                self.check_write(ex, ('sets', base.t), path, e)
                x = hp.fresh('x!ex', H)
                path.heap = h.with_(sets=z3.Store(h['sets'], base.t, ex.name_array(
                    path, z3.Lambda([x], z3.Or(h.set_of(base.t)[x], c.mem[x])))))
                return hp.NONE
        if base.ty == 'clist' and attr == 'append':
            base.x.append(args[0])
            return hp.NONE
        if base.ty == 'dict':
            if attr == 'items':
                return SV('items', base.t)
            if attr == 'keys':
                return SV('keys', base.t)
            if attr == 'values':
                return SV('values', base.t)
        if base.ty == 'str' and attr == 'format':
            if ex.k.hints.get('format_is_H'):
                # an opaque string value usable as a label (hashable): no property of it is assumed
                return SV('H', hp.fresh('fmt', H))
            return SV('str')
        if base.ty in ('graph', 'kripke'):
            cls = 'Kripke' if base.ty == 'kripke' else 'DiGraph'
            q = '%s.%s' % (cls, attr)
            if q not in self.contracts and cls == 'Kripke':
                q = 'DiGraph.%s' % attr
            if q not in self.contracts:
                raise Unsupported('method %s has no contract (line %d)' % (q, e.lineno))
            return self.call_contract(ex, q, [base] + args, kwargs, path, e)
        for x in self.ext:
            r = x.method(self, ex, base, attr, args, kwargs, path, e)
            if r is not None:
                return r
        raise Unsupported('method .%s of %s at line %d' % (attr, base.ty, e.lineno))

    def construct(self, ex, cls, args, kwargs, path, e):
        """Class(...) : allocate the object, then the constructor's contract"""
        r, h = path.heap.new()
        path.heap = h
        ty = {'DiGraph': 'graph', 'Kripke': 'kripke', 'OBDD': 'obdd'}[cls]
        if ty == 'obdd':
            path.heap = path.heap.with_(b_node=z3.Store(path.heap['b_node'], r, z3.BoolVal(False)))
        obj = SV(ty, r)
        self.call_contract(ex, cls + '.__init__', [obj] + args, kwargs, path, e)
        return obj

    def coerce(self, ex, sv, ty, path, what):
        """adapt an argument to a parameter type"""
        if ty == sv.ty:
            return sv
        if ty.startswith('opt:'):
            inner = ty[4:]
            if sv.ty == 'none':
                return SV('opt', None, (z3.BoolVal(True), self.default_of(ex, inner, path)))
            if sv.ty == 'opt':
                return sv
            return SV('opt', None, (z3.BoolVal(False), self.coerce(ex, sv, inner, path, what)))
        if ty == 'iterH':
            if sv.ty == 'opt':
                raise Unsupported('optional value passed as iterable (%s)' % what)
            c = ex.as_coll(sv, path, 'pass')
            if c.kind != 'H':
                raise Unsupported('%s: expected an iterable of H, got %s' % (what, c.kind))
            return SV('coll', None, Coll('H', c.mem, c.distinct))
        if ty == 'iterPair':
            c = ex.as_coll(sv, path, 'pass')
            if c.kind != 'pair':
                raise Unsupported('%s: expected an iterable of pairs, got %s' % (what, c.kind))
            return SV('coll', None, Coll('pair', c.mem, c.distinct))
        if ty == 'graph' and sv.ty == 'kripke':
            return SV('graph', sv.t)
        if ty == 'anydict' and sv.ty == 'dict':
            hh = path.heap
            k_ = hp.fresh('k!ad', H)
            return SV('anydict', None, {'isdict': z3.BoolVal(True), 'dom': hh.ddom(sv.t),
                                        'val': z3.Lambda([k_], hh.set_of(hh.dval(sv.t)[k_])),
                                        'ok': z3.K(H, z3.BoolVal(True))})
        if ty == 'anydict' and sv.ty == 'anydict':
            return sv
        if ty == 'any':
            return sv
        if ty == 'Hopt' and sv.ty == 'H':
            return sv
        if ty == 'Hopt' and sv.ty == 'none':
            return SV('H', hp.NONE_H)
        if ty == 'setlike':
            c = ex.as_coll(sv, path, 'pass')
            return SV('coll', None, Coll('H', c.mem, True))
        if ty == 'iterRefSets' and sv.ty == 'coll' and sv.x.kind == 'ref' and sv.x.elem_ty == 'set':
            return sv
        for x in self.ext:
            r = x.coerce(self, ex, sv, ty, path)
            if r is not None:
                return r
        raise Unsupported('%s: cannot pass %s as %s' % (what, sv.ty, ty))

    def default_of(self, ex, ty, path):
        if ty == 'iterH' or ty == 'setlike':
            return SV('coll', None, Coll('H', hp.empty_set(), True))
        if ty == 'iterPair':
            return SV('coll', None, Coll('pair', hp.empty_rel(), True))
        if ty == 'anydict':
            return SV('anydict', None, {'isdict': z3.BoolVal(True), 'dom': hp.empty_set(),
                                        'val': z3.K(H, hp.empty_set()), 'ok': z3.K(H, z3.BoolVal(True))})
        return ex.fresh_of(ty, path.heap)

    def bind_args(self, ex, k, args, kwargs, path, e):
        names = [n for n, _ in k.params]
        given = dict(zip(names, args))
        for n, v in kwargs.items():
            if n not in names:
                raise Unsupported('unexpected keyword %s' % n)
            given[n] = v
        out = {}
        for n, ty in k.params:
            if n in given:
                out[n] = self.coerce(ex, given[n], ty, path, '%s(%s)' % (k.qualname, n))
                continue
            # an omitted argument takes the default written in the callee's SOURCE (not what the sidecar believes)
            dflt = self.source_default(k, n)
            if dflt is not None and dflt[0] == 'const' and dflt[1] is not None:
                v_ = dflt[1]
                if isinstance(v_, bool) and ty == 'bool':
                    out[n] = SV('bool', z3.BoolVal(v_))
                    continue
                if isinstance(v_, int) and not isinstance(v_, bool) and ty == 'int':
                    out[n] = SV('int', z3.IntVal(v_))
                    continue
                raise Unsupported('default %r of %s.%s does not fit the declared type %s' % (v_, k.qualname, n, ty))
            if dflt is not None and dflt[0] == 'other':
                raise Unsupported('default of %s.%s is not a constant' % (k.qualname, n))
            if ty.startswith('opt:'):
                out[n] = SV('opt', None, (z3.BoolVal(True), self.default_of(ex, ty[4:], path)))
            elif ty == 'Hopt':
                out[n] = SV('H', hp.NONE_H)
            elif ty == 'none':
                out[n] = hp.NONE       # a parameter the contract fixes to its default None
            else:
                raise Unsupported('missing argument %s of %s' % (n, k.qualname))
        return out

    def source_default(self, k, name):
        """('const', value) | ('other',) | None (no default / not found) for parameter `name` of the callee's source"""
        try:
            fnode = self.src.find(self.files[k.qualname], k.hints.get('path', k.qualname))
        except Exception:
            return None
        a = fnode.args
        pos = a.args
        defs = a.defaults
        off = len(pos) - len(defs)
        for i, arg in enumerate(pos):
            if arg.arg == name and i >= off:
                d = defs[i - off]
                if isinstance(d, ast.Constant):
                    return ('const', d.value)
                return ('other',)
        return None

    def call_contract(self, ex, q, args, kwargs, path, e):
        """replace a call by the callee's contract"""
        k = self.contracts.get(q)
        if k is None:
            raise Unsupported('no contract for %s (line %d)' % (q, e.lineno))
        a = self.bind_args(ex, k, args, kwargs, path, e)
        c = CallCtx(k, a, path.heap)
        c.side = 'caller'
        if k.assumed:
            # reported in the evidence of every function that relies on it
            ex.assumed_called[q] = (k.note or 'assumed contract')[:400]
        line = getattr(e, 'lineno', 0)
        # callee precondition
        for name, f in k.requires(c):
            ex.oblige('call:%s:requires:%s:L%d' % (q, name, line), path, f, ('safety', 'call'), line)
        # exceptional exits
        conds = []
        for exc, condf in k.raises.items():
            cond = condf(c)
            conds.append(cond)
            p2 = path.fork(cond)
            path.exc.append((exc, p2, line))
        for cond in conds:
            nf = z3.Not(cond)
            path.pc.append(nf)
            ex.noraise_ids.add(nf.get_id())
        # exceptions the contract allows without saying when (hints['may_raise']): the state at the raise is
        # the pre-state when the contract says raise_unchanged, otherwise anything the frame allows
        for exc in k.hints.get('may_raise', ()):
            p2 = path.fork(hp.fresh('raises_%s' % exc, z3.BoolSort()))
            if not k.raise_unchanged:
                hx = Heap.symbolic('exc_%s' % q.replace('.', '_')) if k.touches is None else Heap.partial('exc_%s' % q.replace('.', '_'), path.heap, k.touches)
                p2.pc.append(hx.alloc >= path.heap.alloc)
                cx = CallCtx(k, a, path.heap)
                cx.side, cx.h1 = 'caller', hx
                if k.frame is None:
                    p2.pc.extend(hp.same_below(path.heap, hx, path.heap.alloc, comps=k.touches))
                else:
                    p2.pc.extend(f for _, f in k.frame(cx))
                for _, f in k.hints.get('raise_keeps', lambda c_: [])(cx):
                    p2.pc.append(f)
                p2.heap = hx
            path.exc.append((exc, p2, line))
        # normal exit: fresh post state constrained by the postcondition
        # (a pure callee - no write to, and no allocation of, anything the caller can reach - keeps the heap)
        if k.pure:
            h1 = path.heap
        else:
            tag = 'post_%s' % q.replace('.', '_')
            h1 = Heap.symbolic(tag) if k.touches is None else Heap.partial(tag, path.heap, k.touches)
            path.pc.append(h1.alloc >= path.heap.alloc)
        c.h1 = h1
        res = None
        if k.generator:
            if k.generator == 'H':
                c.yH = hp.fresh('gen', hp.SetH)
                res = SV('coll', None, Coll('H', c.yH, True))
            elif k.generator == 'pair':
                c.yP = hp.fresh('gen', hp.Rel)
                res = SV('coll', None, Coll('pair', c.yP, True))
            elif k.generator == 'ref':
                c.yR = hp.fresh('gen', hp.SetR)
                res = SV('coll', None, Coll('ref', c.yR, True, elem_ty=k.hints.get('yield_ty', 'list')))
        elif k.ret is not None and k.ret != 'none':
            res = ex.fresh_of(k.ret, h1, 'res')
        else:
            res = hp.NONE
        c.res = res
        if k.pure:
            pass
        elif k.frame is None:
            # nothing allocated before the call changes
            path.pc.extend(hp.same_below(path.heap, h1, path.heap.alloc, comps=k.touches))
        else:
            path.pc.extend(f for _, f in k.frame(c))
        for name, f in k.ensures(c):
            path.pc.append(f)
        hint = ex.k.hints.get('call', {}).get((q, line)) or ex.k.hints.get('call', {}).get(q)
        if hint is not None:
            for f in hint(ex.ctx, c, path):
                path.pc.append(f)
        path.heap = h1
        return res

    def inline(self, ex, fnode, args, kwargs, path, e):
        raise Unsupported('inline call')

    # -- verification of one function ---------------------------------------------
    def param_value(self, ex, name, ty, heap, pc):
        if ty.startswith('opt:'):
            isnone = hp.fresh(name + '_isnone', z3.BoolSort())
            return SV('opt', None, (isnone, self.param_value(ex, name, ty[4:], heap, pc)))
        if ty == 'iterH':
            return SV('coll', None, Coll('H', hp.fresh(name, hp.SetH), False))
        if ty == 'setlike':
            return SV('coll', None, Coll('H', hp.fresh(name, hp.SetH), True))
        if ty == 'iterPair':
            return SV('coll', None, Coll('pair', hp.fresh(name, hp.Rel), False))
        if ty == 'Hopt':
            return SV('H', hp.fresh(name, H))
        if ty == 'iterRefSets':
            # a container of set objects (fairness constraints): every element is an existing set
            m = hp.fresh(name, hp.SetR)
            r = z3.Int('r!irs')
            pc.append(z3.ForAll([r], z3.Implies(m[r], z3.And(r >= 0, r < heap.alloc))))
            return SV('coll', None, Coll('ref', m, False, elem_ty='set'))
        if ty == 'anydict':
            return SV('anydict', None, {'isdict': hp.fresh(name + '_isdict', z3.BoolSort()),
                                        'dom': hp.fresh(name + '_dom', hp.SetH),
                                        'val': hp.fresh(name + '_val', z3.ArraySort(H, hp.SetH)),
                                        'ok': hp.fresh(name + '_iterable', hp.SetH)})
        for x in self.ext:
            r = x.param_value(self, ex, name, ty, heap, pc)
            if r is not None:
                return r
        sv = ex.fresh_of(ty, heap, name)
        if ty in hp.REF_TYPES:
            pc.append(z3.And(sv.t >= 0, sv.t < heap.alloc))
        return sv

    def verify(self, q):
        """returns (obligations, info) ; raises Unsupported"""
        k = self.contracts[q]
        relpath = self.files[q]
        fnode = self.src.find(relpath, k.hints.get('path', k.qualname))
        ex = Executor(self, k, fnode, relpath)
        ex.axioms = list(self.global_axioms)
        h0 = Heap.symbolic('pre')
        pc = [h0.alloc >= 0]
        args = {}
        for n, ty in k.params:
            args[n] = self.param_value(ex, n, ty, h0, pc)
        c = CallCtx(k, args, h0)
        ex.ctx = c
        if k.skolems:
            k.skolems(c)
        for name, f in k.requires(c):
            pc.append(f)
            if name == 'documented_semantics':
                ex.heavy_ids.add(f.get_id())
            if name in k.hints.get('schemas', ()):
                ex.schema_ids.add(f.get_id())
            if name in k.hints.get('heavy_requires', ()):
                ex.heavy2_ids.add(f.get_id())
        env = dict(args)
        path = Path(env, h0, pc)
        if k.generator == 'H':
            path.ghosts['yH'] = hp.empty_set()
        elif k.generator == 'pair':
            path.ghosts['yP'] = hp.empty_rel()
        # python parameter names as in the source
        outs = ex.exec_block(fnode.body, path)
        final = []
        for kind, val, p in outs:
            if kind == 'next':
                final.append(('return', hp.NONE, p))
            elif kind in ('return', 'raise'):
                final.append((kind, val, p))
            else:
                raise Unsupported('%s outside a loop' % kind)
        n_ret = 0
        # the contract's `touches` / `pure` declarations are what callers rely on to keep heap components:
        # every component the declaration leaves out must really be the same array at every exit
        # (pure callees: the frame obligations below already say that nothing older than the call changes, and
        #  they return no new object, so what they allocate is unreachable for the caller)
        declared = None if (k.pure or k.touches is None) else set(k.touches)
        for j_, (kind, val, p) in enumerate(final):
            if declared is None:
                break
            for comp in hp.COMPONENTS:
                if comp in declared or z3.eq(h0[comp], p.heap[comp]):
                    continue
                ex.oblige('declared:untouched:%s:exit%d' % (comp, j_ + 1), p, h0[comp] == p.heap[comp], ('frame',))
        for kind, val, p in final:
            c.h1 = p.heap
            c.yH = p.ghosts.get('yH', hp.empty_set())
            c.yP = p.ghosts.get('yP', hp.empty_rel())
            if kind == 'return' and k.hints.get('ghost_exit'):
                # sidecar ghost code at the function's normal exit (writes ghost components only)
                k.hints['ghost_exit'](c, p)
                c.h1 = p.heap
            if kind == 'return':
                n_ret += 1
                for x_ in self.ext:
                    v2 = x_.coerce_return(self, ex, val, k.ret, p)
                    if v2 is not None:
                        val = v2
                        break
                c.res = val
                if k.ret not in (None, 'none', 'any') and val.ty != k.ret and not k.generator:
                    if not (k.ret == 'graph' and val.ty == 'kripke') and not (k.ret.startswith('coll:') and val.ty == 'coll'):
                        raise Unsupported('%s returns %s, contract says %s' % (q, val.ty, k.ret))
                tagp = 'ret%d' % n_ret
                for name, f in k.ensures(c):
                    ex.oblige('ensures:%s:%s' % (name, tagp), p, f, ('functional',))
                for exc, condf in k.raises.items():
                    # the exception condition must be false on a normal exit
                    ex.oblige('raises:%s:if:%s' % (exc, tagp), p, z3.Not(condf(c)), ('raises',))
                if k.frame is None:
                    for comp, f in hp.same_below(c.h0, p.heap, c.h0.alloc, named=True):
                        ex.oblige('frame:unchanged:%s:%s' % (comp, tagp), p, f, ('frame',))
                else:
                    for name, f in k.frame(c):
                        ex.oblige('frame:%s:%s' % (name, tagp), p, f, ('frame',))
            else:
                exc, ln = val
                if exc in k.hints.get('may_raise', ()):
                    # allowed without a stated condition; the frame is enforced at every write
                    c.h1 = p.heap
                    for name_, f_ in k.hints.get('raise_keeps', lambda c_: [])(c):
                        ex.oblige('raises:%s:%s:L%s' % (exc, name_, ln), p, f_, ('raises',), ln)
                    if k.frame is not None and not k.raise_unchanged:
                        for name_, f_ in k.frame(c):
                            ex.oblige('raises:%s:frame:%s:L%s' % (exc, name_, ln), p, f_, ('frame',), ln)
                    elif k.raise_unchanged:
                        for comp, f in hp.same_below(c.h0, p.heap, c.h0.alloc, named=True):
                            ex.oblige('raises:%s:state_unchanged:%s:L%s' % (exc, comp, ln), p, f, ('frame',), ln)
                elif exc in k.raises:
                    ex.oblige('raises:%s:only_if:L%s' % (exc, ln), p, k.raises[exc](c), ('raises',), ln)
                    for name_, f_ in k.hints.get('raise_ensures', lambda c_, p_, e_: [])(c, p, exc):
                        ex.oblige('raises:%s:%s:L%s' % (exc, name_, ln), p, f_, ('raises',), ln)
                    if k.raise_unchanged:
                        for comp, f in hp.same_below(c.h0, p.heap, c.h0.alloc, named=True):
                            ex.oblige('raises:%s:state_unchanged:%s:L%s' % (exc, comp, ln), p, f, ('frame',), ln)
                else:
                    ex.oblige('safety:no_%s:L%s' % (exc, ln), p, z3.BoolVal(False), ('safety',), ln)
        ex.probes.append(('entry', list(ex.axioms) + list(pc[:1 + len(k.params) + 8])))
        for i, (kind, val, p) in enumerate(final):
            if kind == 'return':
                ex.probes.append(('return%d' % (i + 1), list(ex.axioms) + list(p.pc)))
        info = {'function': q, 'file': 'pyModelChecking/' + relpath, 'sha256_16': self.src.sha(relpath, fnode),
                'lines': [fnode.lineno, fnode.end_lineno], 'paths': len(final), 'returns': n_ret}
        info['probes'] = ex.probes
        info['assumed_contracts_used'] = dict(ex.assumed_called)
        # mechanical scan for assumptions: precondition clauses that exist only on the callee side are
        # never checked at a call site - they are axioms / lemmas / class invariants this proof trusts
        try:
            c2 = CallCtx(k, args, h0)
            c2.side = 'caller'
            if k.skolems:
                k.skolems(c2)
            checked = set(n_ for n_, _ in k.requires(c2))
            info['assumed_clauses'] = [n_ for n_, _ in k.requires(c) if n_ not in checked]
        except Exception:
            info['assumed_clauses'] = ['(scan failed)']
        return ex.obls, info, path

    def probe(self, assumptions, timeout_ms=3000):
        """vacuity guard: the assumption set must NOT be refutable"""
        s = z3.Solver()
        s.set('timeout', timeout_ms)
        for a in assumptions:
            s.add(a)
        r = hard_check(s, timeout_ms)
        return 'refutable' if r == z3.unsat else ('satisfiable' if r == z3.sat else 'not-refuted')

    # -- discharge ---------------------------------------------------------------------
    def discharge(self, o, timeout_ms=None):
        t0 = time.time()
        kills0 = len(HARD_KILLS)
        if o.alt_assumptions is not None:
            s3 = z3.Solver()
            # (short: where the cut lemmas suffice the query is tiny; the full budget comes later)
            s3.set('timeout', max(2000, (timeout_ms or self.timeout_ms) // 8))
            for a in o.alt_assumptions:
                s3.add(a)
            s3.add(z3.Not(o.goal))
            if hard_check(s3, max(2000, (timeout_ms or self.timeout_ms) // 8)) == z3.unsat:
                o.status, o.backend = 'discharged', 'z3'
                o.detail = 'from the cut lemmas alone'
                o.seconds = time.time() - t0
                return o
        # first attempt: e-matching only (the Boogie/Dafny discipline); stable and fast for
        # frame-style reasoning.  Second attempt (below): default configuration with MBQI.
        s0 = z3.Solver()
        s0.set('timeout', max(2000, (3 * (timeout_ms or self.timeout_ms)) // 4))
        s0.set('random_seed', self.seed)
        s0.set('auto_config', False)
        s0.set('mbqi', False)
        for a in o.assumptions:
            s0.add(a)
        s0.add(z3.Not(o.goal))
        if os.environ.get('PYVC_NO_EMATCH_FIRST') != '1' and hard_check(s0, max(2000, (3 * (timeout_ms or self.timeout_ms)) // 4)) == z3.unsat:
            o.status, o.backend = 'discharged', 'z3'
            o.seconds = time.time() - t0
            return o
        s = z3.Solver()
        s.set('timeout', timeout_ms or self.timeout_ms)
        s.set('random_seed', self.seed)
        for a in o.assumptions:
            s.add(a)
        s.add(z3.Not(o.goal))
        r = hard_check(s, (timeout_ms or self.timeout_ms))
        o.seconds = time.time() - t0
        if r == z3.unsat:
            o.status = 'discharged'
            o.backend = 'z3'
            return o
        o.detail = 'z3: %s' % r
        if r == z3.sat:
            o.status = 'refuted'
            o.backend = 'z3'
            o.model = None      # (the query ran in a forked copy; counterexamples come from the bounded stand-in)
            return o
        # unknown: retry with another seed (only where no escalation will follow), then cvc5
        will_escalate = getattr(self, 'escalations_left', 0) > 0 and o.name in self.baseline_names
        for seed in (() if will_escalate else (self.seed + 1,)):
            s.set('random_seed', seed)
            s.set('timeout', (timeout_ms or self.timeout_ms))
            r = hard_check(s, (timeout_ms or self.timeout_ms))
            if r == z3.unsat:
                o.status, o.backend = 'discharged', 'z3'
                o.seconds = time.time() - t0
                return o
            if r == z3.sat:
                o.status, o.backend = 'refuted', 'z3'
                o.seconds = time.time() - t0
                return o
        if o.alt_assumptions is not None:
            s3 = z3.Solver()
            s3.set('timeout', timeout_ms or self.timeout_ms)
            for a in o.alt_assumptions:
                s3.add(a)
            s3.add(z3.Not(o.goal))
            if hard_check(s3, (timeout_ms or self.timeout_ms)) == z3.unsat:
                o.status, o.backend = 'discharged', 'z3'
                o.detail = 'from the cut lemmas alone'
                o.seconds = time.time() - t0
                return o
        if z3.is_or(o.goal):
            # proving one disjunct suffices (raise conditions are disjunctions of cases)
            for g in o.goal.children():
                s2 = z3.Solver()
                s2.set('timeout', (timeout_ms or self.timeout_ms) // 2)
                for a in o.assumptions:
                    s2.add(a)
                s2.add(z3.Not(g))
                if hard_check(s2, (timeout_ms or self.timeout_ms) // 2) == z3.unsat:
                    o.status, o.backend = 'discharged', 'z3'
                    o.seconds = time.time() - t0
                    return o
        # escalation (DESIGN.md section 1): before an obligation that is known to discharge on the
        # unchanged tree is reported as failing, retry with a 2x budget in both configurations;
        # budgeted per worker so that a broken body with many failing obligations stays affordable
        if getattr(self, 'escalations_left', 0) > 0 and o.name in self.baseline_names:
            self.escalations_left -= 1
            # (every obligation of the committed tree discharges within a few seconds; twice the budget, in both
            #  configurations and with another seed, is ample and keeps a run on a broken tree within minutes)
            big = 2 * (timeout_ms or self.timeout_ms)
            for cfg in ({'auto_config': False, 'mbqi': False}, {}):
                s4 = z3.Solver()
                s4.set('timeout', big)
                s4.set('random_seed', self.seed + 7)
                for kk, vv in cfg.items():
                    s4.set(kk, vv)
                for a in o.assumptions:
                    s4.add(a)
                s4.add(z3.Not(o.goal))
                r4 = hard_check(s4, big)
                if r4 == z3.unsat:
                    o.status, o.backend = 'discharged', 'z3'
                    o.detail = 'after escalation'
                    o.seconds = time.time() - t0
                    return o
        r2 = run_cvc5(s, (timeout_ms or self.timeout_ms) // 1000 + 1)
        o.seconds = time.time() - t0
        if r2 == 'unsat':
            o.status, o.backend = 'discharged', 'cvc5'
            return o
        o.status = 'unknown'
        o.detail = 'z3: unknown; cvc5: %s' % r2
        if len(HARD_KILLS) > kills0:
            o.detail += '; %d z3 query(ies) killed at the hard wall-clock limit' % (len(HARD_KILLS) - kills0)
        return o


_Z3_RESULTS = {'unsat': z3.unsat, 'sat': z3.sat, 'unknown': z3.unknown}
HARD_KILLS = []


def hard_check(solver, soft_ms):
    """solver.check() with a HARD wall-clock limit.  z3's `timeout` is a request: a timer raises a flag that the
    engine polls, and one query (quantifier instantiation feeding arithmetic internalisation, C01 under a loaded
    machine) was seen not to poll it for more than fifteen minutes.  A check that can hang is a broken check, so every
    query runs in a forked copy of this process, which is killed at 1.5 x the soft limit + 15 s; a killed query is
    `unknown` (never a verdict).  The fork costs milliseconds (copy-on-write) and z3's timers work in the child."""
    if os.environ.get('PYVC_NO_FORK') == '1':
        return solver.check()
    import select
    import signal
    r, w = os.pipe()
    pid = os.fork()
    if pid == 0:
        code = 'error'
        try:
            os.close(r)
            try:
                import ctypes
                ctypes.CDLL(None).prctl(1, signal.SIGKILL)   # PR_SET_PDEATHSIG: die with the worker
            except Exception:
                pass
            code = str(solver.check())
        except BaseException as e:
            code = 'error:%s' % type(e).__name__
        finally:
            try:
                os.write(w, code.encode())
            finally:
                os._exit(0)
    os.close(w)
    hard_s = 1.5 * soft_ms / 1000.0 + 15.0
    try:
        ready, _, _ = select.select([r], [], [], hard_s)
        if not ready:
            HARD_KILLS.append(round(hard_s, 1))
            try:
                os.kill(pid, signal.SIGKILL)
            except OSError:
                pass
            return z3.unknown
        out = os.read(r, 200).decode()
        return _Z3_RESULTS.get(out, z3.unknown)
    finally:
        os.close(r)
        try:
            os.waitpid(pid, 0)
        except OSError:
            pass


def run_cvc5(solver, timeout_s):
    try:
        smt = solver.to_smt2()
    except Exception as e:
        return 'error:%s' % e
    with tempfile.NamedTemporaryFile('w', suffix='.smt2', delete=False) as fh:
        fh.write('(set-logic ALL)\n' + smt)
        name = fh.name
    try:
        p = subprocess.run(['/usr/bin/cvc5', '--tlimit=%d' % (timeout_s * 1000), name],
                           capture_output=True, text=True, timeout=timeout_s + 5)
        out = (p.stdout or '').strip().splitlines()
        return out[0] if out else 'error'
    except Exception as e:
        return 'error:%s' % type(e).__name__
    finally:
        os.unlink(name)


class Extension(object):
    """hooks for the formula layer / BDD layer"""

    def global_name(self, E, k, name):
        return None

    def attribute(self, E, ex, base, attr, path, node):
        return None

    def set_attribute(self, E, ex, base, attr, v, path, st):
        return False

    def equal(self, E, ex, a, b, path, node):
        return None

    def member(self, E, ex, a, b, path, node):
        return None

    def isinstance(self, E, ex, a, cls, path, node):
        return None

    def method(self, E, ex, base, attr, args, kwargs, path, node):
        return None

    def call_func(self, E, ex, fn, args, kwargs, path, node):
        return None

    def call_value(self, E, ex, fn, args, kwargs, path, node):
        return None

    def star_call(self, E, ex, fn, node, path):
        return None

    def builtin_len(self, E, ex, a, n, path):
        return None

    def subscript(self, E, ex, base, idx, path, node):
        return None

    def seq_comprehension(self, E, ex, e, g, coll, path):
        return None

    def super_call(self, E, ex, cls, attr, node, path):
        return None

    def coerce(self, E, ex, sv, ty, path):
        return None

    def assign_subscript(self, E, ex, base, idx, v, path, st):
        return False

    def binop(self, E, ex, op, a, b, path, node):
        return None

    def coerce_return(self, E, ex, val, ret, path):
        return None

    def param_value(self, E, ex, name, ty, heap, pc):
        return None
