"""Run the VC generator for the functions a property depends on (worker
processes; z3 terms never cross process boundaries)."""
import os
import time
import traceback

from .. import core

# which functions each property puts under contract: (owned, relied-on)
FUNCTIONS = {
    'graph': ['DiGraph.__init__', 'DiGraph.add_node', 'DiGraph.add_edge', 'DiGraph.sources', 'DiGraph.nodes',
              'DiGraph.next', 'DiGraph.edges_iter', 'DiGraph.edges', 'DiGraph.clone', 'DiGraph.get_subgraph',
              'DiGraph.get_reversed_graph', 'DiGraph.get_reachable_set_from', 'DiGraph.get_reachable_set_from(set)'],
}
FUNCTIONS['kripke'] = ['Kripke.__init__', 'Kripke.labels', 'Kripke.states', 'Kripke.next', 'Kripke.transitions_iter',
                       'Kripke.transitions', 'Kripke.clone', 'Kripke.get_substructure']
FUNCTIONS['ctl'] = ['_checkAtomicProposition', '_checkNot', '_checkEX', '_checkOr', '_checkStateFormula', '_checkEU', '_checkEG', 'modelcheck', 'CTL.modelcheck(text)']
FUNCTIONS['rewrite'] = ['LNot'] + ['%s.get_equivalent_restricted_formula' % c for c in
                                   ('AtomicProposition', 'Not', 'A', 'E', 'X', 'F', 'G', 'Or', 'And', 'Imply', 'U', 'R')]
FUNCTIONS['rewrite'] += ['EX', 'EG', 'EU', 'CTL.A.get_equivalent_restricted_formula', 'CTL.E.get_equivalent_restricted_formula']
FUNCTIONS['fair'] = ['Kripke.get_fair_states.<locals>.is_a_fair_SCC', 'Kripke.get_fair_states', 'Kripke.label_fair_states', 'CTL.modelcheck(fair)']
FUNCTIONS['ltl'] = ['LTL.modelcheck', 'LTL.modelcheck(text)']
FUNCTIONS['ctls'] = ['_remove_state_subformulas', '_checkQuantifiedFormula', 'CTLS.modelcheck', 'CTLS.modelcheck(text)']
FUNCTIONS['bdd'] = ['find_isomorph', 'BDDNode.__reset__', 'BDDNonTerminalNode.__reset__', 'BDDNonTerminalNode.__new__']
FUNCTIONS['bddops'] = ['BDDNonTerminalNode.__invert__', 'BDDTerminalNode.__invert__', 'cache_restrict', 'compute_restrict',
                       'apply', 'compute', 'BDDsons_and_BDD', 'BDD_and_BDDsons', 'BDDsons_and_BDDsons']
FUNCTIONS['bddops'] += ['BDDTerminalNode.__reset__', 'BDDTerminalNode.__new__']
FUNCTIONS['bddops'] += ['BDDNode.restrict', 'OBDD.restrict', 'descendents', 'BDDNode.descendents', 'BDDNode.variables']
FUNCTIONS['bddops'] += ['OBDD.__init__', 'OBDD.apply', 'OBDD.__and__', 'OBDD.__or__', 'OBDD.__xor__', 'OBDD.__invert__']
FUNCTIONS['obddparse'] = ['parse_name', 'parse_binary_unary_op', 'parse_binary_op', 'parse_binary_binary_op', 'parse_binary_expr']
PROPERTY_FUNCTIONS = {
    'C10': ['Parser.__call__'],
    'C02': ['LTL.modelcheck', 'LTL.modelcheck(text)', 'LNot', 'Not.get_equivalent_restricted_formula', 'Parser.__call__'],
    'C03': ['_get_a_new_atomic_proposition_for', 'Kripke.labels'] + FUNCTIONS['ctls'] + ['Kripke.clone', 'LTL.modelcheck', 'LNot', 'Parser.__call__'],
    # "text or object: the same set" is a corollary of the text-leg contracts (each is the object-leg statement about
    # the formula object the parser returns); the cross-checker agreement itself is bounded
    'C04': ['CTL.modelcheck(text)', 'LTL.modelcheck(text)', 'CTLS.modelcheck(text)', 'modelcheck', 'LTL.modelcheck', 'CTLS.modelcheck', 'Parser.__call__'],
    'C16': FUNCTIONS['bdd'],
    'C18': FUNCTIONS['obddparse'] + ['OBDD.__init__', 'OBDD.__and__', 'OBDD.__or__', 'OBDD.__invert__', 'BDDTerminalNode.__new__', 'BDDNonTerminalNode.__new__'],
    'C17': FUNCTIONS['bddops'] + ['BDDNonTerminalNode.__new__', 'BDDNonTerminalNode.__reset__'],
    'C05': FUNCTIONS['rewrite'],
    # own functions + the callee contracts the labelling relies on directly (their owners C13/C14 verify the rest)
    'C01': FUNCTIONS['ctl'] + ['Kripke.labels', 'Kripke.states', 'Kripke.next', 'Kripke.transitions_iter',
                               'DiGraph.get_subgraph', 'DiGraph.get_reversed_graph', 'DiGraph.add_edge', 'DiGraph.add_node',
                               'DiGraph.nodes', 'DiGraph.next', 'DiGraph.get_reachable_set_from', 'Parser.__call__'],
    'C07': FUNCTIONS['ctl'] + ['Kripke.clone', 'Kripke.labels', 'Kripke.states', 'Kripke.next', 'Kripke.transitions_iter',
                               'DiGraph.get_subgraph', 'DiGraph.get_reversed_graph', 'DiGraph.get_reachable_set_from'] + FUNCTIONS['ctls'] + FUNCTIONS['ltl'] + FUNCTIONS['fair'],
    'C19': FUNCTIONS['ctl'] + ['Kripke.labels', 'Kripke.states', 'Kripke.next', 'Kripke.transitions_iter'] + FUNCTIONS['ctls'] + FUNCTIONS['ltl'],
    'C15': FUNCTIONS['fair'] + ['Kripke.clone', 'Kripke.labels', 'Kripke.next', 'DiGraph.get_reversed_graph', 'DiGraph.get_reachable_set_from'],
    'C13': FUNCTIONS['graph'],
    'C14': FUNCTIONS['kripke'] + FUNCTIONS['graph'],
}


TRUSTED = {
    '*': ['CPython 3.12 semantics as stated in E1-E6 (DESIGN.md 2.2)', 'z3 4.x / cvc5 solvers',
          'pyvc VC generator (vf/pyvc) - mitigated by planted-defect self-test and vacuity probes'],
    'C13': [],
    'C01': ['documented CTL semantics of the restricted operators in fixpoint form (vf/pyvc/formula.py semantic_axioms; CGP00 ch.4; TB1-TB3) - audited end to end by the bounded check against the path-based reference',
            'contract of get_equivalent_restricted_formula used as an axiom on sat (same meaning, documented grammar kept); C05 proves it body by body in the path semantics '
            '(CTL.A, CTL.E and the inherited CTL* bodies), the two axiomatisations are linked only by the definition sat(f) = states whose paths/points satisfy f; injectivity of printing (C09, bounded): memo keys are formula trees',
            '_checkEG is proved GIVEN (a) the ASSUMED contract of compute_SCCs = the statement of C12 over rtc (body out of the generator\'s subset; C12 checks it bounded), '
            '(b) the greatest-fixpoint principle of E G phi (second-order schema, trusted semantics) instantiated syntactically at the returned set, '
            '(c) CGP00 Lemma 4.1, completeness half, for finite structures: every state of E G phi reaches through phi-states a node on a phi-cycle (finite_structure_cycle_lemma), '
            '(d) rtc = reflexive-transitive closure: edge/transitivity/last-step axioms, the induction schema and "closure of the converse = converse of the closure" (vf/pyvc/heap.py, trusted mathematics), '
            '(e) the generator compute_SCCs is consumed as if evaluated eagerly (the loop body writes only the fresh set T, which the generator does not read)',
            'least-fixpoint principle of E(phi U psi) (second-order schema, trusted semantics) instantiated syntactically at the returned set',
            'text leg (contract CTL.modelcheck(text), parser=None): the answer is sat of the formula object the default parser returns, parse errors propagate as the package\'s ParserError subclasses; '
            'which object the parser returns for a string is C09/C10 (bounded) and the ASSUMED contract of lark.Lark.parse',
            'precondition: Python None is not a state (KF-C19-1)'],
    'C05': ['documented path semantics as axioms over abstract evaluation points (vf/pyvc/formula_sem.py axioms(); logics.rst) incl. skolemised quantifiers',
            'induction hypothesis = the contract itself for recursive calls on subformulas (partial correctness)',
            'constructors called by the rewriting bodies do not raise (typing of the rebuilt formula: C08, bounded) and wrap Python booleans as Bool',
            'clone() returns an equal tree (C11, bounded); formulas are identified with their trees',
            'CTL.A / CTL.E rewriting bodies (CTL/language.py) and the shortcuts EX/EG/EU are under proof for receivers that satisfy the documented CTL grammar '
            '(class invariant of CTL objects: C08, bounded); A(f U g) and E(f R g) use the least-position principle (well-ordering of the naturals, trusted mathematics) through one cut lemma each',
            'CTL restricted syntax (true, not, or, atoms, E with X/U/G) as elimination/introduction axioms (logics.rst); inherited bodies Not/Or/And/Imply/AtomicProposition are proved to stay inside it on CTL receivers',
            'receiver-class differences of LTL (Lang lookup; KF-C05-1) are NOT under proof: bounded only',
            'one verification per body: the receiver is any formula with the class tag and arity of the defining class'],
    'C10': ['ASSUMED external contract of lark.Lark.parse: returns the transformer value or raises lark UnexpectedToken/UnexpectedCharacters '
            '(mutually exclusive) with pos_in_stream in [0, len(string)]; which strings each grammar accepts is data interpreted by Lark: bounded only',
            'only the wrapper Parser.__call__ is under proof (exception translation, position, string)'],
    'C16': ['TB7: garbage collection / weak references are not modelled - the table invariant ranges over every node ever registered (stronger than "live"); '
            'a collected node can only remove entries from the weak sets, which preserves uniqueness',
            'TB8 (Bryant canonicity): "no two registered non-terminals share (var, low, high)" + reducedness + orderedness imply "equal function iff same root"; not proved here',
            'object.__new__(cls) returns a new object of the non-terminal class, registered nowhere',
            'the node constructor also maintains the GHOST denotation invariant used by C17 (vf/pyvc/contracts_bdd.py den_inv); BDDTerminalNode.__new__ is assumed'],
    'C18': ['under proof: the five functions of the expression parser (parse_binary_expr, parse_binary_op, parse_binary_binary_op, parse_binary_unary_op, parse_name): the OBDD built from a Python ast '
            'denotes value_of(ast) on every assignment, is a new OBDD over the given ordering, and SyntaxError is raised exactly for asts outside boolean_syntax; and/or/not and &,|,~ have the same value by the specification',
            'SPECIFICATION (trusted): value_of = the documented meaning of a Boolean expression (`~` read as negation), boolean_syntax = the shapes the parser accepts; Python ast nodes are values of an uninterpreted sort with reader functions; '
            'n-ary and/or are folds whose recursive clause is instantiated syntactically at the loop counter',
            'ValueError / RuntimeError (a variable missing from the ordering: respect_ordering, not modelled) may be raised without the contract saying when',
            'NOT under proof (bounded only): ast.parse and the lambda/argument handling (parse_function, parse_args, BinaryParser.parse), "lambda form equals expression form" as identical OBDDs (needs canonicity, TB8), '
            'printing and its round trip'],
    'C17': ['denotation of a node = GHOST component written by sidecar ghost code at the exit of BDDNonTerminalNode.__reset__ (Shannon expansion of the children\'s denotations); '
            'ghost invariant: every constructed node\'s stored denotation is the expansion of its children\'s / its constant',
            'under proof for all nodes, operators, orderings and cache contents satisfying the cache invariant: __invert__ (both classes: complement), cache_restrict/compute_restrict (cofactor: den(res)(s) = den(f)(s[v:=b])), '
            'apply/compute and the three decompositions (den(res)(s) = op(den(A)(s), den(B)(s)) for an arbitrary binary operator value); result caches (dictionaries keyed by node identity) by invariant',
            'BDDTerminalNode.__new__ / __reset__ are under proof for Boolean values (the class-level dictionary Tnodes is a global of the heap model keyed by the Boolean; 0/1 are the same keys in Python)',
            'the OBDD wrapper: OBDD.apply, &, |, ^, ~ return a new OBDD over the same ordering whose root denotes the pointwise combination / complement; a normal return of OBDD.apply implies equal orderings '
            '(different orderings: RuntimeError; Ordering.__eq__ is uninterpreted); the operator lambdas are evaluated symbolically; OBDD.__init__ for the leg (node, Ordering)',
            'orderedness: a second GHOST component records the orderings a node\'s diagram respects (variable before its children\'s, children respect it); proved: if the operands of apply/compute/the decompositions, '
            '__invert__, cache_restrict/compute_restrict respect an ordering then so does the result, and no variable before the tops of all operands is at or after the top of the result; '
            'in_order(x, y) is modelled as position(x) < position(y) (ListOrdering.cmp; FunctionOrdering is not covered); reducedness (distinct children) is part of the table invariant (C16)',
            'descendents() / variables(): the nodes reachable through low/high (least closed set; `least` by a skolem set on the callee side, forall Z on the caller side) and exactly the variables they test; termination not claimed',
            'NOT under proof (bounded only): orderedness at the OBDD-wrapper level (equal orderings are different objects; respect_ordering is uninterpreted), a variable outside the ordering, '
            'the expression parser, garbage collection (TB7); BDDNode.restrict / OBDD.restrict are under proof for a Boolean value and a variable name for which isinstance(var, str) is an uninterpreted predicate (TypeError iff it is false)',
            'apply/compute may raise RuntimeError ("Unsupported configuration") when the ordering relates the two variables in no direction; the contract allows it without saying when'],
    'C02': ['only the wrapper LTL.modelcheck (object formula A g, F=None) is under proof: result = states all of whose paths satisfy g, GIVEN the assumed '
            'contract of _checkE_path_formula (result = states with some path satisfying the restricted formula) and the proved contracts of LNot / rewriting; '
            'the tableau (_get_closure, _build_atoms, _Tableu, _is_non_trivial_self_fulfilling) and TB9 are not within deductive reach: bounded only',
            'documented path semantics as axioms (vf/pyvc/formula_sem.py)'],
    'C03': ['the fresh-label helper _get_a_new_atomic_proposition_for is under proof (the label is not a label of K; termination not claimed; '
            'it may still collide with an atom of the formula, KF-C19-2)',
            '_remove_state_subformulas / _checkQuantifiedFormula / CTLS.modelcheck (object formula, F=None) are under proof for FRAME and SAFETY only (owned by C07 / C19): '
            'what the reduction computes (relabelling + substitution lemma) is not stated; bounded only'],
    'C15': ['FRAME and SAFETY only ("no call raises an internal error or modifies K"): is_a_fair_SCC, get_fair_states, label_fair_states and CTL.modelcheck with F (object formula) '
            'write nothing that existed before the call except the CONTENTS of label sets of the structure they are applied to - which in CTL.modelcheck is the clone; the result is a new set of states',
            'ASSUMED: contract of compute_SCCs (C12, bounded); F is a container of existing set objects; get_equivalent_non_fair_formula returns a documented CTL state formula and touches no structure',
            'what is computed (fair states, fair semantics) is wrong on the pinned tree (KF-C15-1/2/3) and is decided by the bounded check against defect models; LTL and CTL* with F: bounded only'],
    'C04': ['only "passing the formula as text or as an object gives the same set" has a deductive counterpart: the text legs of the three modelcheck functions are proved to satisfy the '
            'object-leg statement at the formula object the default parser returns (relied-on obligations, owned by C01/C02/C03/C07/C19); agreement between the three checkers and the semantic laws are bounded only',
            'for CTL* the text leg is proved for frame/safety only, for LTL relative to the assumed tableau contract'],
    'C07': ['frame obligations cover: the CTL labelling functions and CTL.modelcheck (object formula, F=None); LTL.modelcheck wrapper (given the assumed _checkE_path_formula contract); '
            'CTLS.modelcheck, _remove_state_subformulas, _checkQuantifiedFormula (object formula): writes go to objects allocated during the call, or to the label sets of the CLONE',
            'ASSUMED in the CTL* call graph: CTL.modelcheck called with an arbitrary formula object (cast leg) either raises TypeError or returns a new set and writes nothing older than the call; '
            'formula operations (constructors, LNot, subformulas, cast_to, printing) do not touch structures; formula objects satisfy the arity invariant (C08, bounded; KF-C08-1)',
            'with fairness constraints (F = a container of existing sets): CTL.modelcheck (contract CTL.modelcheck(fair)), Kripke.label_fair_states / get_fair_states and the CTL* reduction are covered by the same frame '
            '(writes go to the label sets of the clone); get_equivalent_non_fair_formula and cast_to are taken to return formula objects satisfying the arity invariant and to touch no structure',
            'LTL.modelcheck with F (always TypeError, KF-C15-3), the text/parser legs and purity of REPEATED calls (no hidden state between calls) are bounded only'],
    'C19': ['safety obligations (no KeyError/IndexError/RuntimeError/AttributeError/StopIteration can leave the function) and freshness of the result cover the CTL labelling functions, '
            'CTL.modelcheck, the LTL.modelcheck wrapper and the CTL* reduction (object formula, F=None) under the assumptions listed for C07; tableau and fairness legs bounded only',
            'precondition: Python None is not a state (KF-C19-1)'],
}


def build_engine(repo=None, timeout_ms=20000, seed=0):
    from .driver import Engine
    from . import contracts_graph
    E = Engine(repo or core.REPO, timeout_ms=timeout_ms, seed=seed)
    try:
        import json
        with open(core.BASELINE) as fh:
            E.baseline_names = set(json.load(fh).get('discharged', {}).keys())
    except Exception:
        E.baseline_names = set()
    for k in contracts_graph.make():
        E.register(k, contracts_graph.FILE)
    for modname in ('contracts_kripke', 'contracts_ctl', 'formula_sem', 'contracts_bdd', 'contracts_obddparse', 'contracts_parser', 'contracts_ctls'):
        mod = __import__('vf.pyvc.' + modname, fromlist=['install'])
        mod.install(E)
    from . import contracts_ctl, formula_sem
    contracts_ctl.install_ctls(E)
    formula_sem.install_ltl(E)
    return E


SLICES = {'Kripke.__init__': 10, 'DiGraph.__init__': 3, 'Kripke.clone': 2, 'DiGraph.add_edge': 2, '_checkOr': 3,
          '_checkStateFormula': 3, '_checkEX': 2, '_checkEU': 14, '_checkEG': 8, 'And.get_equivalent_restricted_formula': 2}


# every function's obligations are spread over a few workers: on the committed tree this costs a repeated (cheap)
# symbolic execution, on a broken tree it keeps the failing obligations (tens of seconds each) from queueing up
DEFAULT_SLICES = 3


def verify_function(arg):
    """arg = (qualname, repo, timeout_ms, seed[, slice_index, n_slices]); symbolic execution is
    repeated in every slice (cheap, deterministic), each slice discharges its share"""
    q, repo, timeout_ms, seed = arg[:4]
    si, ns = (arg[4], arg[5]) if len(arg) > 4 else (0, 1)
    from .engine import Unsupported
    t0 = time.time()
    try:
        E = build_engine(repo, timeout_ms, seed)
        obls, info, _ = E.verify(q)
    except Unsupported as e:
        return {'function': q, 'extraction_failure': str(e), 'obligations': [], 'seconds': time.time() - t0, 'slice': si}
    except Exception as e:
        # the generator met code it cannot model (e.g. a changed body using an unexpected shape):
        # a tool limit, reported as an extraction failure; the bounded stand-in decides
        return {'function': q, 'extraction_failure': 'internal: %s: %s' % (type(e).__name__, str(e)[:200]),
                'trace': traceback.format_exc()[-800:], 'obligations': [], 'seconds': time.time() - t0, 'slice': si}
    out = []
    for i, o in enumerate(obls):
        if i % ns != si:
            continue
        E.discharge(o)
        out.append({'name': o.name, 'status': o.status, 'backend': o.backend, 'seconds': o.seconds,
                    'tags': list(o.tags), 'detail': o.detail, 'line': o.line, 'index': i})
    probes = []
    allp = info.pop('probes')
    # vacuity probes: entry, every loop body/exit, and at most three return paths
    rets = [p for p in allp if p[0].startswith('return')]
    keep = [p for p in allp if not p[0].startswith('return')] + rets[:3]
    for j, (name, assumptions) in enumerate(keep):
        if j % ns == si:
            probes.append({'name': '%s:probe:%s' % (q, name), 'result': E.probe(assumptions, 500)})
    info['probes'] = probes
    info['obligations'] = out
    info['n_generated'] = len(obls)
    info['seconds'] = time.time() - t0
    info['owner'] = E.contracts[q].owner
    info['slice'] = si
    return info


def run_functions(ctx, functions, timeout_ms=None):
    timeout_ms = timeout_ms or (20000 if ctx.tier == 'quick' else 120000)
    jobs = []
    for q in functions:
        ns = SLICES.get(q, DEFAULT_SLICES)
        for si in range(ns):
            jobs.append((q, core.REPO, timeout_ms, ctx.seed, si, ns))
    # heavy functions first
    jobs.sort(key=lambda j: -SLICES.get(j[0], DEFAULT_SLICES))
    parts = ctx.pmap(verify_function, jobs, chunksize=1)
    merged = {}
    for r in parts:
        q = r['function']
        if q not in merged:
            merged[q] = r
            continue
        m = merged[q]
        for key in ('extraction_failure', 'crash'):
            if key in r and key not in m:
                m[key] = r[key]
        m['obligations'] = m.get('obligations', []) + r.get('obligations', [])
        m['probes'] = m.get('probes', []) + r.get('probes', [])
        m['seconds'] = max(m.get('seconds', 0), r.get('seconds', 0))
    out = []
    for q in functions:
        m = merged[q]
        m['obligations'].sort(key=lambda o: o['index'])
        out.append(m)
    return out
