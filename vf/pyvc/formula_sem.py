"""Semantic layer for the rewriting functions (property C05): formulas with
positional subformulas, the documented path semantics (doc/source/logics.rst) as
axioms over abstract evaluation points, and contracts for LNot and the CTL*
get_equivalent_restricted_formula bodies (CTLS/language.py; inherited unchanged by
LTL and, except A/E, by CTL).

Evaluation points W are (path, position) pairs: at(w, k) is the k-th suffix,
cur(w) the state at the point, isstart(w) says w is position 0 of a path.  The
clauses below are the documented ones: X, F, G, U, R over positions; A/E over the
paths that start at the current state; Boolean connectives pointwise (n-ary and/or
over the operand index)."""
import ast

import z3

from . import heap as hp
from .heap import SV, Coll, H, F
from .driver import Extension
from .engine import Contract, Unsupported
from .formula import TAGS, TAG, T, tag, mkbool, boolval

I = z3.IntSort()
B = z3.BoolSort()
W = z3.DeclareSort('W')
St = z3.DeclareSort('St')

nk = z3.Function('nkids', F, I)
kid = z3.Function('kid', F, I, F)
holds = z3.Function('holds', F, W, B)
at = z3.Function('at', W, I, W)
cur = z3.Function('cur', W, St)
isstart = z3.Function('isstart', W, B)
rst = z3.Function('restricted', F, B)          # documented restricted alphabet (CTL*/LTL form)
restr = z3.Function('restr_sem', F, F)         # result of get_equivalent_restricted_formula
lnot_f = z3.Function('lnot_result', F, F)      # result of LNot
mk = {n: z3.Function('mk%d' % n, I, *([F] * n + [F])) for n in (1, 2)}
mkn = z3.Function('mkseq', I, I, z3.ArraySort(I, F), F)
# skolem witnesses
w_or = z3.Function('w_or', F, W, I)
w_and = z3.Function('w_and', F, W, I)
w_F = z3.Function('w_F', F, W, I)
w_G = z3.Function('w_G', F, W, I)
w_U = z3.Function('w_U', F, W, I)
w_Uj = z3.Function('w_Uj', F, W, I, I)
w_R = z3.Function('w_R', F, W, I)
w_Rj = z3.Function('w_Rj', F, W, I, I)
w_E = z3.Function('w_E', F, W, W)
w_A = z3.Function('w_A', F, W, W)
w_rst = z3.Function('w_rst', F, I)
# CTL (logics.rst, "Computational Tree Logic"): the documented grammar of state formulas and the
# documented restricted syntax (true, not, or, E paired with X, U or G; atoms)
ctlf = z3.Function('ctl_state_formula', F, B)
rstc = z3.Function('restricted_ctl', F, B)
w_rstc = z3.Function('w_rstc', F, I)
# least position (<= n) at which a formula holds along a path: well-ordering of the naturals
lst = z3.Function('least_position', F, W, I, I)
# arity invariant of formula OBJECTS (hereditary): what the code may rely on when it takes subformula(0)
wfobj = z3.Function('object_invariant', F, B)
w_obj = z3.Function('w_obj', F, I)
UNARY = ('A', 'E', 'Not', 'X', 'F', 'G')
nonfair_s = z3.Function('non_fair_formula_sem', F, H, F)   # result of get_equivalent_non_fair_formula(label)
named = z3.Function('named', I, B)      # always true; keeps a term in a lemma's hypothesis so that e-matching sees it


def is_tag(f, *names):
    return z3.Or([tag(f) == T(n) for n in names]) if len(names) > 1 else tag(f) == T(names[0])


def k0(f):
    return kid(f, 0)


def k1(f):
    return kid(f, 1)


def axioms():
    f, g, x, y = z3.Consts('f!a g!a x!a y!a', F)
    w, v = z3.Consts('w!a v!a', W)
    i, j, k, t = z3.Ints('i!a j!a k!a t!a')
    arr = z3.Const('arr!a', z3.ArraySort(I, F))
    b = z3.Const('b!a', B)
    ax = []
    A = ax.append
    # constructors
    A(z3.ForAll([t, x], z3.And(tag(mk[1](t, x)) == t, nk(mk[1](t, x)) == 1, kid(mk[1](t, x), 0) == x), patterns=[mk[1](t, x)]))
    A(z3.ForAll([t, x, y], z3.And(tag(mk[2](t, x, y)) == t, nk(mk[2](t, x, y)) == 2, kid(mk[2](t, x, y), 0) == x,
                                  kid(mk[2](t, x, y), 1) == y), patterns=[mk[2](t, x, y)]))
    # (a list has a non-negative length; without the guard the axiom contradicts nkids >= 0 at k < 0)
    A(z3.ForAll([t, k, arr], z3.Implies(k >= 0, z3.And(tag(mkn(t, k, arr)) == t, nk(mkn(t, k, arr)) == k)), patterns=[mkn(t, k, arr)]))
    A(z3.ForAll([t, k, arr, j], kid(mkn(t, k, arr), j) == arr[j], patterns=[kid(mkn(t, k, arr), j)]))
    A(z3.ForAll([b], z3.And(tag(mkbool(b)) == T('Bool'), boolval(mkbool(b)) == b, nk(mkbool(b)) == 0), patterns=[mkbool(b)]))
    A(z3.ForAll([f], nk(f) >= 0, patterns=[nk(f)]))
    # positions
    A(z3.ForAll([w], at(w, 0) == w, patterns=[at(w, 0)]))
    A(z3.ForAll([w, i, j], z3.Implies(z3.And(i >= 0, j >= 0), at(at(w, i), j) == at(w, i + j)), patterns=[at(at(w, i), j)]))
    # documented semantics
    A(z3.ForAll([f, w], z3.Implies(is_tag(f, 'Bool'), holds(f, w) == boolval(f)), patterns=[holds(f, w)]))
    A(z3.ForAll([f, w], z3.Implies(is_tag(f, 'Not'), holds(f, w) == z3.Not(holds(k0(f), w))), patterns=[holds(f, w)]))
    A(z3.ForAll([f, w], z3.Implies(is_tag(f, 'Imply'), holds(f, w) == z3.Or(z3.Not(holds(k0(f), w)), holds(k1(f), w))),
                patterns=[holds(f, w)]))
    # n-ary or / and over the operand index
    A(z3.ForAll([f, w], z3.Implies(z3.And(is_tag(f, 'Or'), holds(f, w)),
                                   z3.And(0 <= w_or(f, w), w_or(f, w) < nk(f), holds(kid(f, w_or(f, w)), w))), patterns=[holds(f, w)]))
    A(z3.ForAll([f, w, j], z3.Implies(z3.And(is_tag(f, 'Or'), 0 <= j, j < nk(f), holds(kid(f, j), w)), holds(f, w)),
                patterns=[z3.MultiPattern(holds(f, w), kid(f, j))]))
    A(z3.ForAll([f, w], z3.Implies(z3.And(is_tag(f, 'And'), z3.Not(holds(f, w))),
                                   z3.And(0 <= w_and(f, w), w_and(f, w) < nk(f), z3.Not(holds(kid(f, w_and(f, w)), w)))),
                patterns=[holds(f, w)]))
    A(z3.ForAll([f, w, j], z3.Implies(z3.And(is_tag(f, 'And'), 0 <= j, j < nk(f), z3.Not(holds(kid(f, j), w))), z3.Not(holds(f, w))),
                patterns=[z3.MultiPattern(holds(f, w), kid(f, j))]))
    # consequences of the two n-ary clauses for a two-operand term (stated because index
    # witnesses over {0,1} need an arithmetic case split that e-matching does not drive)
    A(z3.ForAll([x, y, w], holds(mk[2](T('Or'), x, y), w) == z3.Or(holds(x, w), holds(y, w)), patterns=[holds(mk[2](T('Or'), x, y), w)]))
    A(z3.ForAll([x, y, w], holds(mk[2](T('And'), x, y), w) == z3.And(holds(x, w), holds(y, w)), patterns=[holds(mk[2](T('And'), x, y), w)]))
    # X, F, G
    A(z3.ForAll([f, w], z3.Implies(is_tag(f, 'X'), holds(f, w) == holds(k0(f), at(w, 1))), patterns=[holds(f, w)]))
    A(z3.ForAll([f, w], z3.Implies(z3.And(is_tag(f, 'F'), holds(f, w)), z3.And(w_F(f, w) >= 0, holds(k0(f), at(w, w_F(f, w))))),
                patterns=[holds(f, w)]))
    A(z3.ForAll([f, w, k], z3.Implies(z3.And(is_tag(f, 'F'), k >= 0, holds(k0(f), at(w, k))), holds(f, w)),
                patterns=[z3.MultiPattern(holds(f, w), at(w, k))]))
    A(z3.ForAll([f, w], z3.Implies(z3.And(is_tag(f, 'G'), z3.Not(holds(f, w))),
                                   z3.And(w_G(f, w) >= 0, z3.Not(holds(k0(f), at(w, w_G(f, w)))))), patterns=[holds(f, w)]))
    A(z3.ForAll([f, w, k], z3.Implies(z3.And(is_tag(f, 'G'), k >= 0, z3.Not(holds(k0(f), at(w, k)))), z3.Not(holds(f, w))),
                patterns=[z3.MultiPattern(holds(f, w), at(w, k))]))
    # U: exists k>=0. psi2 at k and psi1 at every j in [0, k-1]
    A(z3.ForAll([f, w], z3.Implies(z3.And(is_tag(f, 'U'), holds(f, w)),
                                   z3.And(w_U(f, w) >= 0, holds(k1(f), at(w, w_U(f, w))))), patterns=[holds(f, w)]))
    A(z3.ForAll([f, w, j], z3.Implies(z3.And(is_tag(f, 'U'), holds(f, w), 0 <= j, j < w_U(f, w)), holds(k0(f), at(w, j))),
                patterns=[z3.MultiPattern(holds(f, w), at(w, j))]))
    A(z3.ForAll([f, w, k], z3.Implies(z3.And(is_tag(f, 'U'), k >= 0, holds(k1(f), at(w, k)),
                                             z3.Not(z3.And(0 <= w_Uj(f, w, k), w_Uj(f, w, k) < k,
                                                           z3.Not(holds(k0(f), at(w, w_Uj(f, w, k))))))), holds(f, w)),
                patterns=[z3.MultiPattern(holds(f, w), at(w, k))]))
    # R: for all k>=0, if psi1 fails at every j in [0, k-1] then psi2 at k
    A(z3.ForAll([f, w], z3.Implies(z3.And(is_tag(f, 'R'), z3.Not(holds(f, w))),
                                   z3.And(w_R(f, w) >= 0, z3.Not(holds(k1(f), at(w, w_R(f, w)))))), patterns=[holds(f, w)]))
    A(z3.ForAll([f, w, j], z3.Implies(z3.And(is_tag(f, 'R'), z3.Not(holds(f, w)), 0 <= j, j < w_R(f, w)),
                                      z3.Not(holds(k0(f), at(w, j)))), patterns=[z3.MultiPattern(holds(f, w), at(w, j))]))
    A(z3.ForAll([f, w, k], z3.Implies(z3.And(is_tag(f, 'R'), k >= 0, z3.Not(holds(k1(f), at(w, k))),
                                             z3.Not(z3.And(0 <= w_Rj(f, w, k), w_Rj(f, w, k) < k,
                                                           holds(k0(f), at(w, w_Rj(f, w, k)))))), z3.Not(holds(f, w))),
                patterns=[z3.MultiPattern(holds(f, w), at(w, k))]))
    # E / A over the paths that start at the current state
    A(z3.ForAll([f, w], z3.Implies(z3.And(is_tag(f, 'E'), holds(f, w)),
                                   z3.And(isstart(w_E(f, w)), cur(w_E(f, w)) == cur(w), holds(k0(f), w_E(f, w)))), patterns=[holds(f, w)]))
    A(z3.ForAll([f, w, v], z3.Implies(z3.And(is_tag(f, 'E'), isstart(v), cur(v) == cur(w), holds(k0(f), v)), holds(f, w)),
                patterns=[z3.MultiPattern(holds(f, w), isstart(v))]))
    A(z3.ForAll([f, w], z3.Implies(z3.And(is_tag(f, 'A'), z3.Not(holds(f, w))),
                                   z3.And(isstart(w_A(f, w)), cur(w_A(f, w)) == cur(w), z3.Not(holds(k0(f), w_A(f, w))))),
                patterns=[holds(f, w)]))
    A(z3.ForAll([f, w, v], z3.Implies(z3.And(is_tag(f, 'A'), isstart(v), cur(v) == cur(w), z3.Not(holds(k0(f), v))), z3.Not(holds(f, w))),
                patterns=[z3.MultiPattern(holds(f, w), isstart(v))]))
    # restricted alphabet: not, or, X, U, E, Boolean constants and atoms (logics.rst, "Restricted Syntax")
    A(z3.ForAll([f], z3.Implies(rst(f), is_tag(f, 'Not', 'Or', 'X', 'U', 'E', 'Bool', 'AtomicProposition')), patterns=[rst(f)]))
    A(z3.ForAll([f, j], z3.Implies(z3.And(rst(f), 0 <= j, j < nk(f)), rst(kid(f, j))), patterns=[z3.MultiPattern(rst(f), kid(f, j))]))
    A(z3.ForAll([f], z3.Implies(z3.And(is_tag(f, 'Not', 'Or', 'X', 'U', 'E', 'Bool', 'AtomicProposition'),
                                       z3.Not(z3.And(0 <= w_rst(f), w_rst(f) < nk(f), z3.Not(rst(kid(f, w_rst(f))))))), rst(f)),
                patterns=[rst(f)]))
    return ax


def ctl_axioms():
    """documented CTL grammar (elimination rules: what a CTL state formula looks like) and the
    documented CTL restricted syntax (elimination + introduction), plus the least-position principle"""
    f, g = z3.Consts('f!c g!c', F)
    v = z3.Const('v!c', W)
    j, n = z3.Ints('j!c n!c')
    p = k0(f)
    ax = []
    A = ax.append
    A(z3.ForAll([f], z3.Implies(ctlf(f), is_tag(f, 'Not', 'Or', 'And', 'Imply', 'Bool', 'AtomicProposition', 'A', 'E')), patterns=[ctlf(f)]))
    A(z3.ForAll([f], z3.Implies(z3.And(ctlf(f), is_tag(f, 'Not')), z3.And(nk(f) == 1, ctlf(k0(f)))), patterns=[ctlf(f)]))
    A(z3.ForAll([f], z3.Implies(z3.And(ctlf(f), is_tag(f, 'Imply')), z3.And(nk(f) == 2, ctlf(k0(f)), ctlf(k1(f)))), patterns=[ctlf(f)]))
    A(z3.ForAll([f, j], z3.Implies(z3.And(ctlf(f), is_tag(f, 'Or', 'And'), 0 <= j, j < nk(f)), ctlf(kid(f, j))),
                patterns=[z3.MultiPattern(ctlf(f), kid(f, j))]))
    A(z3.ForAll([f], z3.Implies(z3.And(ctlf(f), is_tag(f, 'A', 'E')), z3.And(
        nk(f) == 1, is_tag(p, 'X', 'F', 'G', 'U', 'R'),
        z3.Implies(is_tag(p, 'X', 'F', 'G'), z3.And(nk(p) == 1, ctlf(k0(p)))),
        z3.Implies(is_tag(p, 'U', 'R'), z3.And(nk(p) == 2, ctlf(k0(p)), ctlf(k1(p)))))), patterns=[ctlf(f)]))
    # restricted syntax of CTL
    A(z3.ForAll([f], z3.Implies(rstc(f), is_tag(f, 'Not', 'Or', 'Bool', 'AtomicProposition', 'E')), patterns=[rstc(f)]))
    A(z3.ForAll([f, j], z3.Implies(z3.And(rstc(f), is_tag(f, 'Not', 'Or'), 0 <= j, j < nk(f)), rstc(kid(f, j))),
                patterns=[z3.MultiPattern(rstc(f), kid(f, j))]))
    A(z3.ForAll([f, j], z3.Implies(z3.And(rstc(f), is_tag(f, 'E')),
                                   z3.And(is_tag(p, 'X', 'U', 'G'), z3.Implies(z3.And(0 <= j, j < nk(p)), rstc(kid(p, j))))),
                patterns=[z3.MultiPattern(rstc(f), kid(p, j))]))
    A(z3.ForAll([f], z3.Implies(z3.And(is_tag(f, 'Not', 'Or', 'Bool', 'AtomicProposition'),
                                       z3.Not(z3.And(0 <= w_rstc(f), w_rstc(f) < nk(f), z3.Not(rstc(kid(f, w_rstc(f))))))), rstc(f)),
                patterns=[rstc(f)]))
    A(z3.ForAll([f], z3.Implies(z3.And(is_tag(f, 'E'), nk(f) == 1, is_tag(p, 'X', 'U', 'G'),
                                       z3.Not(z3.And(0 <= w_rstc(f), w_rstc(f) < nk(p), z3.Not(rstc(kid(p, w_rstc(f))))))), rstc(f)),
                patterns=[rstc(f)]))
    A(z3.ForAll([n], named(n), patterns=[named(n)]))
    # well-ordering: if g holds at position n of v, there is a least such position
    L = lst(g, v, n)
    A(z3.ForAll([g, v, n], z3.Implies(z3.And(n >= 0, holds(g, at(v, n))),
                                      z3.And(0 <= L, L <= n, holds(g, at(v, L)))), patterns=[L]))
    A(z3.ForAll([g, v, n, j], z3.Implies(z3.And(n >= 0, holds(g, at(v, n)), 0 <= j, j < L), z3.Not(holds(g, at(v, j)))),
                patterns=[z3.MultiPattern(L, at(v, j))]))
    return ax


def object_axioms():
    """the arity invariant of formula objects: elimination, heredity, introduction; LNot keeps it"""
    f = z3.Const('f!ob', F)
    j = z3.Int('j!ob')
    return [
        z3.ForAll([f], z3.Implies(z3.And(wfobj(f), is_tag(f, *UNARY)), nk(f) == 1), patterns=[wfobj(f)]),
        z3.ForAll([f, j], z3.Implies(z3.And(wfobj(f), 0 <= j, j < nk(f)), wfobj(kid(f, j))), patterns=[z3.MultiPattern(wfobj(f), kid(f, j))]),
        z3.ForAll([f], z3.Implies(z3.And(z3.Implies(is_tag(f, *UNARY), nk(f) == 1),
                                         z3.Not(z3.And(0 <= w_obj(f), w_obj(f) < nk(f), z3.Not(wfobj(kid(f, w_obj(f))))))), wfobj(f)),
                  patterns=[wfobj(f)]),
    ]


def lnot_keeps_objects():
    f = z3.Const('f!lo', F)
    return [z3.ForAll([f], z3.Implies(wfobj(f), wfobj(lnot_f(f))), patterns=[lnot_f(f)])]


def nonfair_keeps_objects():
    """ASSUMED (C08/C15, bounded): the fairness rewriting returns an object that satisfies the arity invariant"""
    f = z3.Const('f!nf', F)
    lb = z3.Const('l!nf', H)
    return [z3.ForAll([f, lb], z3.Implies(wfobj(f), wfobj(nonfair_s(f, lb))), patterns=[nonfair_s(f, lb)])]


def ctl_induction_hypothesis():
    f = z3.Const('f!ihc', F)
    r = lnot_f(f)
    return [z3.ForAll([f], z3.Implies(ctlf(f), rstc(restr(f))), patterns=[restr(f)]),
            z3.ForAll([f], z3.Implies(rstc(f), rstc(r)), patterns=[lnot_f(f)])]


def equiv(a, b):
    w = z3.Const('w!eq', W)
    return z3.ForAll([w], holds(a, w) == holds(b, w), patterns=[holds(a, w), holds(b, w)])


def negation(a, b):
    w = z3.Const('w!ng', W)
    return z3.ForAll([w], holds(a, w) == z3.Not(holds(b, w)), patterns=[holds(a, w), holds(b, w)])


def binary_or_unfolds(r):
    w = z3.Const('w!bo', W)
    return z3.ForAll([w], holds(r, w) == z3.Or(holds(k0(r), w), holds(k1(r), w)), patterns=[holds(r, w)])


def induction_hypothesis():
    """contract of get_equivalent_restricted_formula for EVERY formula (partial-correctness
    induction: assumed for the recursive calls on subformulas) and of LNot"""
    f = z3.Const('f!ih', F)
    w = z3.Const('w!ih', W)
    return [
        z3.ForAll([f, w], holds(restr(f), w) == holds(f, w), patterns=[holds(restr(f), w)]),
        z3.ForAll([f], rst(restr(f)), patterns=[restr(f)]),
    ]


def lnot_contract_facts():
    f = z3.Const('f!ln', F)
    w = z3.Const('w!ln', W)
    r = lnot_f(f)
    return [
        z3.ForAll([f, w], holds(r, w) == z3.Not(holds(f, w)), patterns=[holds(r, w)]),
        z3.ForAll([f], z3.Not(z3.And(is_tag(r, 'Not'), is_tag(k0(r), 'Not'))), patterns=[lnot_f(f)]),
        z3.ForAll([f], z3.Implies(rst(f), rst(r)), patterns=[lnot_f(f)]),
    ]


class SemExt(Extension):
    """active for contracts whose hints say ext == 'sem'"""

    def on(self, ex):
        return ex.k.hints.get('ext') == 'sem'

    def global_name(self, E, k, name):
        if k.hints.get('ext') != 'sem':
            return None
        if name in ('sys', 'CTLS', 'LTL', 'CTL'):
            return SV('module', None, name)
        if name == 'Kripke':
            return None
        if name in ('PathQuantifier', 'Formula'):
            return SV('fclass', None, name)
        if name == 'Parser':
            return SV('type', None, 'Parser')
        if name == 'LNot':
            return SV('func', None, ('sem', 'LNot'))
        if name in TAG:
            return SV('fclass', None, name)
        return None

    def attribute(self, E, ex, base, attr, path, node):
        if not self.on(ex):
            return None
        if base.ty == 'module':
            if base.x == 'sys' and attr == 'modules':
                return SV('sysmodules')
            if attr in TAG:
                return SV('fclass', None, attr)
            if attr == 'modelcheck' and base.x in ('CTL', 'LTL'):
                q = ex.k.hints.get('modelcheck_contracts', {}).get(base.x)
                if q:
                    return SV('func', None, ('contract', q))
            raise Unsupported('module attribute %s' % attr)
        if base.ty == 'F':
            if attr == '_subformula':
                f = base.t
                return SV('seqval', None, (nk(f), lambda j, f=f: SV('F', kid(f, j))))
            if attr == '__class__':
                return SV('fclassof', None, base.t)      # the receiver's own class (same tag)
            if attr == '__module__':
                return SV('str')
            return SV('bound', None, (base, attr))
        if base.ty in ('fseq', 'seqval'):
            return SV('bound', None, (base, attr))
        return None

    def subscript(self, E, ex, base, idx, path, node):
        if self.on(ex) and base.ty == 'sysmodules':
            return SV('module', None, 'Lang')
        return None

    def isinstance(self, E, ex, a, cls, path, node):
        if self.on(ex) and a.ty == 'F' and cls.ty == 'fclass':
            if cls.x == 'PathQuantifier':
                return SV('bool', is_tag(a.t, 'A', 'E'))
            if cls.x == 'Formula':
                return SV('bool', z3.BoolVal(True))       # a value of static type F is a formula object
            return SV('bool', is_tag(a.t, cls.x))
        if self.on(ex) and a.ty == 'F' and cls.ty == 'func' and cls.x[0] == 'builtin' and cls.x[1] in ('str', 'bool'):
            return SV('bool', z3.BoolVal(False))
        if self.on(ex) and a.ty == 'text' and cls.ty == 'func' and cls.x[0] == 'builtin' and cls.x[1] == 'str':
            return SV('bool', z3.BoolVal(True))
        return None

    def method(self, E, ex, base, attr, args, kwargs, path, node):
        if not self.on(ex):
            return None
        if base.ty == 'F':
            f = base.t
            if attr == 'subformula':
                i = args[0]
                if i.ty != 'int':
                    raise Unsupported('subformula index')
                ex.may_raise('IndexError', z3.Not(z3.And(i.t >= 0, i.t < nk(f))), path, node)
                return SV('F', kid(f, i.t))
            if attr == 'get_equivalent_restricted_formula':
                return SV('F', restr(f))
            if attr == 'subformulas':
                return SV('seqval', None, (nk(f), lambda j, f=f: SV('F', kid(f, j))))
            if attr == 'cast_to':
                # same tree in the target language, or TypeError (C08)
                ex.may_raise('TypeError', hp.fresh('cast_fails', B), path, node)
                return SV('F', f)
            if attr == 'get_equivalent_non_fair_formula' and len(args) == 1 and args[0].ty == 'H':
                return SV('F', nonfair_s(f, args[0].t))
            if attr == 'clone':
                return SV('F', f)       # formulas are identified with their trees
        if base.ty == 'fseq' and attr == 'append' and args[0].ty == 'F':
            h = path.heap
            r = base.t
            E.check_write(ex, ('fs_el', r), path, node)
            n = h['fs_len'][r]
            path.heap = h.with_(fs_len=z3.Store(h['fs_len'], r, n + 1),
                                fs_el=z3.Store(h['fs_el'], r, z3.Store(h['fs_el'][r], n, args[0].t)))
            return hp.NONE
        return None

    def coerce(self, E, ex, sv, ty, path):
        # a parameter that the constructors wrap: a formula, or a Python boolean (becomes Bool)
        if ty == 'Fb' and self.on(ex):
            return SV('F', self._arg(sv))
        return None

    def param_value(self, E, ex, name, ty, heap, pc):
        if ty == 'Fb':
            return SV('F', hp.fresh(name, F))
        if ty == 'text':
            return SV('text', hp.fresh(name, H))
        return None

    def call_func(self, E, ex, fn, args, kwargs, path, node):
        if fn.x[0] == 'sem' and fn.x[1] == 'LNot':
            return SV('F', lnot_f(args[0].t))
        return None

    def _arg(self, a):
        if a.ty == 'F':
            return a.t
        if a.ty == 'bool' and (z3.is_true(a.t) or z3.is_false(a.t)):
            return mkbool(a.t)          # wrap_subformulas turns Python booleans into Bool
        raise Unsupported('constructor operand of type %s' % a.ty)

    def call_value(self, E, ex, fn, args, kwargs, path, node):
        if self.on(ex) and fn.ty == 'type' and fn.x == 'Parser' and not args:
            return SV('parserobj')
        if self.on(ex) and fn.ty == 'parserobj' and len(args) == 1 and args[0].ty == 'text':
            from .formula import FML
            r = E.call_contract(ex, 'Parser.__call__', [fn, SV('H', args[0].t)], kwargs, path, node)
            return SV('F', FML(r.t))
        if not self.on(ex) or fn.ty not in ('fclass', 'fclassof'):
            return None
        if fn.ty == 'fclass' and fn.x == 'AtomicProposition' and len(args) == 1 and args[0].ty in ('H', 'str'):
            ap = hp.fresh('atom', F)
            path.pc.append(z3.And(is_tag(ap, 'AtomicProposition'), nk(ap) == 0))
            return SV('F', ap)
        t = T(fn.x) if fn.ty == 'fclass' else tag(fn.x)
        xs = [self._arg(a) for a in args]
        if len(xs) in (1, 2):
            return SV('F', mk[len(xs)](t, *xs))
        raise Unsupported('constructor with %d operands' % len(xs))

    def star_call(self, E, ex, fn, node, path):
        if not self.on(ex) or fn.ty not in ('fclass', 'fclassof'):
            return None
        if len(node.args) != 1 or not isinstance(node.args[0], ast.Starred):
            raise Unsupported('mixed star call')
        seq = ex.ev(node.args[0].value, path)
        if seq.ty == 'fseq':
            h = path.heap
            return SV('F', mkn(T(fn.x) if fn.ty == 'fclass' else tag(fn.x), h['fs_len'][seq.t], h['fs_el'][seq.t]))
        if seq.ty == 'seqval':
            n, el = seq.x
            arr = hp.fresh('ops', z3.ArraySort(I, F))
            j = z3.Int('j!sc')
            path.pc.append(z3.ForAll([j], z3.Implies(z3.And(0 <= j, j < n), arr[j] == el(j).t), patterns=[arr[j]]))
            return SV('F', mkn(T(fn.x) if fn.ty == 'fclass' else tag(fn.x), n, arr))
        raise Unsupported('star call with %s' % seq.ty)

    def seq_comprehension(self, E, ex, e, g, coll, path):
        if not self.on(ex):
            return None
        if not isinstance(g.target, ast.Name) or g.ifs:
            raise Unsupported('comprehension shape')
        n = coll.length

        def el(j, coll=coll, e=e, g=g, ex=ex, path=path):
            sub = path.fork()
            sub.env[g.target.id] = coll.elem(j)
            v = ex.ev(e.elt, sub)
            if v.ty != 'F':
                raise Unsupported('comprehension element %s' % v.ty)
            return v
        return SV('seqval', None, (n, el))


FILES = {'language': 'language.py', 'ctls': 'CTLS/language.py', 'ctl': 'CTL/language.py'}
CTL_STATE_TAGS = ('Not', 'Or', 'And', 'Imply', 'AtomicProposition')     # CTL* bodies that CTL state formulas inherit


def install(E):
    E.ext.append(SemExt())
    common = {'ext': 'sem', 'list_kind': 'fseq'}

    def facts(c):
        return [('documented_semantics', z3.And(axioms())), ('documented_ctl_syntax', z3.And(ctl_axioms())),
                ('object_invariant_definition', z3.And(object_axioms()))]

    # -- LNot -------------------------------------------------------------------
    def lnot_req(c):
        out = []
        if c.side == 'callee':
            out += facts(c) + [('induction_hypothesis_LNot', z3.And(lnot_contract_facts() + ctl_induction_hypothesis()[1:] + lnot_keeps_objects()))]
        return out

    def lnot_ens(c):
        f, r = c.formula.t, c.res.t
        return [('negates', negation(r, f)),
                ('no_double_negation', z3.Not(z3.And(is_tag(r, 'Not'), is_tag(k0(r), 'Not')))),
                ('keeps_restricted_alphabet', z3.Implies(rst(f), rst(r))),
                ('keeps_ctl_restricted_alphabet', z3.Implies(rstc(f), rstc(r))),
                ('keeps_object_invariant', z3.Implies(wfobj(f), wfobj(r))),
                ('is_the_result_function', r == lnot_f(f)) if c.side == 'caller' else ('trivial', z3.BoolVal(True))]

    E.register(Contract(
        'LNot', 'language', [('formula', 'F')], ret='F',
        requires=lambda c: lnot_req(c) + [('negation_has_operand', z3.Implies(is_tag(c.formula.t, 'Not'), nk(c.formula.t) >= 1)),
                                          ('inner_negation_has_operand',
                                           z3.Implies(z3.And(is_tag(c.formula.t, 'Not'), is_tag(k0(c.formula.t), 'Not')), nk(k0(c.formula.t)) >= 1))],
        ensures=lnot_ens, pure=True, hints=dict(common), owner='C05'), FILES['language'])

    # -- the CTL* rewriting bodies ------------------------------------------------
    def rw_req(tagname, arity):
        def req(c):
            f = c.self.t
            out = [('receiver_class', is_tag(f, tagname)),
                   ('receiver_arity', (nk(f) == arity) if arity is not None else (nk(f) >= 0))]
            if c.side == 'callee':
                out += facts(c) + [('induction_hypothesis', z3.And(induction_hypothesis() + lnot_contract_facts() + ctl_induction_hypothesis()))]
            return out
        return req

    def rw_ens(c):
        f, r = c.self.t, c.res.t
        out = [('equivalent', equiv(r, f)), ('restricted_alphabet', rst(r))]
        if c.k.hints.get('ctl_receiver'):
            # the same body run on a CTL state formula: the result is in CTL's restricted syntax
            out.append(('restricted_alphabet_ctl', z3.Implies(ctlf(f), rstc(r))))
        return out

    def loop_map(transform):
        """invariant of `for p in self._subformula: subformulas.append(T(p...))`"""
        def inv(lc):
            c, h = lc.c, lc.h
            f = c.self.t
            L = lc.env['subformulas'].t
            j = z3.Int('j!lm')
            return [
                ('list_is_own', z3.And(L >= c.h0.alloc, L < h.alloc)),
                ('length', h['fs_len'][L] == lc.seen),
                ('elements', z3.ForAll([j], z3.Implies(z3.And(0 <= j, j < lc.seen), h['fs_el'][L][j] == transform(kid(f, j))),
                                       patterns=[h['fs_el'][L][j]])),
                ('alloc', h.alloc >= lc.h_entry.alloc),
            ] + [('unchanged:' + n_, f_) for n_, f_ in hp.same_below(c.h0, h, c.h0.alloc, named=True)]
        return inv

    def operands_cut(inner_of, negated):
        def cut(c, path):
            f, r = c.self.t, inner_of(c.res.t)
            j = z3.Int('j!cut')
            w = z3.Const('w!cut', W)
            rhs = z3.Not(holds(kid(f, j), w)) if negated else holds(kid(f, j), w)
            return z3.ForAll([j, w], z3.Implies(z3.And(0 <= j, j < nk(f)), holds(kid(r, j), w) == rhs),
                             patterns=[z3.MultiPattern(kid(f, j), holds(f, w)), z3.MultiPattern(kid(r, j), holds(r, w))])
        return cut

    def same_arity_cut(inner_of):
        def cut(c, path):
            return nk(inner_of(c.res.t)) == nk(c.self.t)
        return cut

    specs = [
        ('AtomicProposition', 'AtomicProposition', 0, {}),
        ('Not', 'Not', 1, {}),
        ('A', 'A', 1, {}),
        ('E', 'E', 1, {}),
        ('X', 'X', 1, {}),
        ('F', 'F', 1, {}),
        ('G', 'G', 1, {}),
        ('Or', 'Or', None, {}, [same_arity_cut(lambda r: r), operands_cut(lambda r: r, False)]),
        ('And', 'And', None, {1: loop_map(lambda x: lnot_f(restr(x)))}, [same_arity_cut(k0), operands_cut(k0, True)]),
        ('Imply', 'Imply', 2, {}),
        ('U', 'U', 2, {1: loop_map(lambda x: restr(x))}),
        ('R', 'R', 2, {1: loop_map(lambda x: lnot_f(restr(x)))}),
    ]
    names = []
    for spec in specs:
        cls, tagname, arity, loops = spec[:4]
        cuts = spec[4] if len(spec) > 4 else []
        q = '%s.get_equivalent_restricted_formula' % cls
        names.append(q)
        hints = dict(common)
        if cuts:
            hints['cuts'] = {'ensures:equivalent': cuts}
        if cls in CTL_STATE_TAGS:
            hints['ctl_receiver'] = True
        E.register(Contract(
            q, 'ctls', [('self', 'F')], ret='F', requires=rw_req(tagname, arity), ensures=rw_ens,
            loops=loops, loop_touches={1: {'fs_len', 'fs_el'}}, touches={'fs_len', 'fs_el'}, hints=hints, owner='C05'), FILES['ctls'])
    # -- CTL/language.py: the shortcuts and the CTL-specific rewriting of A and E --------------------
    def shortcut(name, outer, inner, arity):
        ps = [('psi', 'Fb')] + ([('phi', 'Fb')] if arity == 2 else [])

        def ens(c):
            args = [c.psi.t] + ([c.phi.t] if arity == 2 else [])
            return [('builds', c.res.t == mk[1](T(outer), mk[arity](T(inner), *args)))]
        E.register(Contract(name, 'ctl', ps, ret='F', ensures=ens, pure=True, hints=dict(common), owner='C05'), FILES['ctl'])
        names.append(name)

    shortcut('EX', 'E', 'X', 1)
    shortcut('EG', 'E', 'G', 1)
    shortcut('EU', 'E', 'U', 2)

    def ctl_req(tagname):
        def req(c):
            f = c.self.t
            out = [('receiver_class', is_tag(f, tagname)),
                   ('receiver_is_a_CTL_state_formula', ctlf(f))]       # class invariant of CTL objects (C08, bounded)
            if c.side == 'callee':
                out += facts(c) + [('induction_hypothesis', z3.And(induction_hypothesis() + lnot_contract_facts() + ctl_induction_hypothesis()))]
            return out
        return req

    def ctl_ens(c):
        f, r = c.self.t, c.res.t
        return [('equivalent', equiv(r, f)), ('restricted_alphabet_ctl', rstc(r))]

    def cut_ER(c, path):
        # path level, needs the least position of phi: if (phi R psi) holds on v and phi occurs on v, then
        # psi U (phi and psi) holds on v (in the rewritten operands)
        f = c.self.t
        p = k0(f)
        phi, sf0, sf1 = k0(p), restr(k0(p)), restr(k1(p))
        Ures = mk[2](T('U'), sf1, mk[1](T('Not'), mk[2](T('Or'), lnot_f(sf0), lnot_f(sf1))))
        v = z3.Const('v!er', W)
        n = z3.Int('n!er')
        return z3.Implies(is_tag(p, 'R'), z3.ForAll([v, n], z3.Implies(
            z3.And(n >= 0, holds(p, v), holds(phi, at(v, n)), named(lst(phi, v, n))), holds(Ures, v)),
            patterns=[z3.MultiPattern(holds(p, v), at(v, n))]))

    def cut_AU(c, path):
        # path level, needs the least position of psi: if (phi U psi) fails on v and psi occurs on v, then
        # (not psi) U (not phi and not psi) holds on v (in the rewritten operands)
        f = c.self.t
        p = k0(f)
        psi, sf0, sf1 = k1(p), restr(k0(p)), restr(k1(p))
        Ures = mk[2](T('U'), lnot_f(sf1), mk[1](T('Not'), mk[2](T('Or'), sf0, sf1)))
        v = z3.Const('v!au', W)
        n = z3.Int('n!au')
        return z3.Implies(is_tag(p, 'U'), z3.ForAll([v, n], z3.Implies(
            z3.And(n >= 0, z3.Not(holds(p, v)), holds(psi, at(v, n)), named(lst(psi, v, n))), holds(Ures, v)),
            patterns=[z3.MultiPattern(holds(p, v), at(v, n))]))

    for cls in ('A', 'E'):
        q = 'CTL.%s.get_equivalent_restricted_formula' % cls
        E.register(Contract(
            q, 'ctl', [('self', 'F')], ret='F', requires=ctl_req(cls), ensures=ctl_ens, touches=set(),
            hints=dict(common, path='%s.get_equivalent_restricted_formula' % cls,
                       cuts={'ensures:equivalent': [cut_AU if cls == 'A' else cut_ER]}), owner='C05'), FILES['ctl'])
        names.append(q)
    return ['LNot'] + names


# ---- LTL.modelcheck against an assumed contract of _checkE_path_formula (C02) --------------
state_of = z3.Function('state_of', St, H)            # the hashable value of a state
satE = z3.Function('satE', F, hp.SetH)               # states with some path (from position 0) satisfying a path formula
w_sE = z3.Function('w_satE', F, H, W)
w_sA = z3.Function('w_satA', F, H, W)


def path_state_axioms(Vset):
    """satE(g)[s] <-> s is a state and some path starting at s satisfies g (skolemised)"""
    g = z3.Const('g!pe', F)
    s = z3.Const('s!pe', H)
    w = z3.Const('w!pe', W)
    return [
        z3.ForAll([g, s], z3.Implies(satE(g)[s], z3.And(Vset[s], isstart(w_sE(g, s)), state_of(cur(w_sE(g, s))) == s, holds(g, w_sE(g, s)))),
                  patterns=[satE(g)[s]]),
        z3.ForAll([g, s, w], z3.Implies(z3.And(Vset[s], isstart(w), state_of(cur(w)) == s, holds(g, w)), satE(g)[s]),
                  patterns=[z3.MultiPattern(satE(g)[s], isstart(w))]),
    ]


def install_ltl(E):
    from .contracts_graph import V as Vv, frame
    from .contracts_kripke import wfK
    FILE = 'LTL/model_checking.py'
    common = {'ext': 'sem', 'list_kind': 'fseq'}

    E.register(Contract(
        '_checkE_path_formula', 'ltl', [('kripke', 'kripke'), ('p_formula', 'F')], ret='set',
        requires=lambda c: [('kripke_wf', wfK(c.h0, c.kripke.t)), ('restricted', rst(c.p_formula.t))],
        ensures=lambda c: [('exists_path', hp.seteq(c.h1.set_of(c.res.t), satE(c.p_formula.t))),
                           ('fresh', z3.And(c.res.t >= c.h0.alloc, c.res.t < c.h1.alloc))],
        touches={'sets'}, hints=dict(common), owner='C02', assumed=True,
        note='ASSUMED: the tableau construction (_get_closure, _build_atoms, _Tableu, SCC search) is not within deductive reach; bounded only'), FILE)

    def req(c):
        f = c.formula.t
        out = [('kripke_wf', wfK(c.h0, c.kripke.t)),
               ('A_formulas_have_one_operand', z3.Implies(is_tag(f, 'A'), nk(f) == 1))]
        if c.side == 'callee':
            out += [('documented_semantics', z3.And(axioms() + path_state_axioms(Vv(c.h0, c.kripke.t)))),
                    ('contracts_of_LNot_and_rewriting', z3.And(induction_hypothesis() + lnot_contract_facts()))]
        return out

    def ens(c):
        f = c.formula.t
        g = k0(f)
        s = z3.Const('s!mc', H)
        w = z3.Const('w!mc', W)
        R = c.h1.set_of(c.res.t)
        k = c.kripke.t
        # s is in the result iff it is a state and EVERY path starting at s satisfies g
        return [
            ('only_states', z3.ForAll([s], z3.Implies(R[s], Vv(c.h0, k)[s]))),
            ('sound', z3.ForAll([s, w], z3.Implies(z3.And(R[s], isstart(w), state_of(cur(w)) == s), holds(g, w)),
                                patterns=[z3.MultiPattern(R[s], isstart(w))])),
            ('complete', z3.ForAll([s], z3.Implies(z3.And(Vv(c.h0, k)[s], z3.Not(R[s])),
                                                   z3.Exists([w], z3.And(isstart(w), state_of(cur(w)) == s, z3.Not(holds(g, w))))))),
            ('fresh', z3.And(c.res.t >= c.h0.alloc, c.res.t < c.h1.alloc)),
        ]

    from .contracts_parser import lark_tok, lark_chr, lark_val
    from .formula import FML

    def tparsed(c):
        return FML(lark_val(c.formula.t))

    class _TextCtx(object):
        """the object-formula clauses, read at the formula the parser returns"""
        def __init__(self, c):
            self.__dict__['c'] = c

        def __getattr__(self, name):
            if name == 'formula':
                return SV('F', tparsed(self.__dict__['c']))
            return getattr(self.__dict__['c'], name)

    E.register(Contract(
        'LTL.modelcheck(text)', 'ltl', [('kripke', 'kripke'), ('formula', 'text'), ('parser', 'none'), ('F', 'none')], ret='set',
        requires=lambda c: req(_TextCtx(c)), ensures=lambda c: ens(_TextCtx(c)),
        raises={'pkg.UnexpectedToken': lambda c: lark_tok(c.formula.t),
                'pkg.UnexpectedCharacters': lambda c: lark_chr(c.formula.t),
                'TypeError': lambda c: z3.And(z3.Not(lark_tok(c.formula.t)), z3.Not(lark_chr(c.formula.t)), z3.Not(is_tag(tparsed(c), 'A')))},
        touches={'sets'}, hints=dict(common, path='modelcheck', qual='LTL.modelcheck'), owner='C02',
        note='text formula, default parser, F=None: the statement of LTL.modelcheck about the formula object the parser returns'), FILE)

    E.register(Contract(
        'LTL.modelcheck', 'ltl', [('kripke', 'kripke'), ('formula', 'F'), ('parser', 'none'), ('F', 'none')], ret='set',
        requires=req, ensures=ens,
        raises={'TypeError': lambda c: z3.Not(is_tag(c.formula.t, 'A'))},
        touches={'sets'}, hints=dict(common, path='modelcheck', qual='LTL.modelcheck'), owner='C02',
        note='object formula A g with one operand, F=None'), FILE)
