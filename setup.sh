#!/bin/bash
# Build the overlay virtualenv used by every check (offline, from the wheelhouse).
# /venv's interpreter (3.12, has the repo's own deps incl. lark-parser 0.12) + z3/cvc5/jsonschema.
# Idempotent: does nothing when the venv already imports everything.
set -e
HERE="$(cd "$(dirname "$0")" && pwd)"
VENV="$HERE/.venv"
PY="$VENV/bin/python"
ok() { "$PY" -c "import z3, cvc5, jsonschema, lark" >/dev/null 2>&1; }
if [ -x "$PY" ] && ok; then exit 0; fi
rm -rf "$VENV"
/venv/bin/python -m venv "$VENV" >/dev/null
PIP_NO_INDEX=1 "$VENV/bin/pip" install -q --no-index --find-links /opt/veriftools/wheels \
    z3-solver cvc5 jsonschema >/dev/null 2>&1
echo "import site; site.addsitedir('/venv/lib/python3.12/site-packages')" \
    > "$VENV/lib/python3.12/site-packages/zz_repo.pth"
ok || { echo "setup: overlay venv is not importable" >&2; exit 3; }
